"""C16 — output files are well-formed after every write and after a crash at any point.

Typestate over the file-operation sequence of every TextObserver subclass's __call__:
W1 every path ends with flush() after its last write
W2 a log row / the header is exactly one write of a newline-terminated string
W3 the trajectory is append-only (no seek/truncate), frames written through ASE's append-only writer
W4 the restart rewrite starts from offset 0 with the old content discarded (also when shrinking)
W5 every crash point (prefix of the op sequence) leaves the file in a state the property allows
"""

from __future__ import annotations

import ast

import networkx as nx

from .. import asetab
from ..cfg import build_cfg
from ..dataflow import Inliner
from ..loader import AnalysisError, ClassInfo, FuncInfo, Program, dotted, norm, walk_no_nested
from ..normalize import flat
from ..report import Ledger

FILE_RECV = ("self._file", "self.file")
OPS = {"seek", "truncate", "write", "writelines", "flush", "close"}


def _resolve_text(prog, fi, e, depth=0):
    """follow a local bound once, or a module-level string constant, to the expression that builds the text"""
    if depth > 6 or not isinstance(e, ast.Name):
        return e
    defs = [st for st in walk_no_nested(fi.node) if isinstance(st, (ast.Assign, ast.AnnAssign)) and st.value is not None
            and any(isinstance(t, ast.Name) and t.id == e.id for t in (st.targets if isinstance(st, ast.Assign) else [st.target]))]
    if len(defs) == 1:
        return _resolve_text(prog, fi, defs[0].value, depth + 1)
    if not defs:
        v = getattr(fi.module, "assigns", {}).get(e.id)
        if isinstance(v, ast.Constant) and isinstance(v.value, str):
            return v
    return e


def _ends_with_newline(e: ast.expr, prog=None, fi=None) -> bool | None:
    if fi is not None:
        e = _resolve_text(prog, fi, e)
    if isinstance(e, ast.Constant) and isinstance(e.value, str):
        return e.value.endswith("\n")
    if isinstance(e, ast.BinOp) and isinstance(e.op, ast.Add):
        return _ends_with_newline(e.right, prog, fi)
    if isinstance(e, ast.JoinedStr) and e.values:
        last = e.values[-1]
        if isinstance(last, ast.Constant):
            return str(last.value).endswith("\n")
        if isinstance(last, ast.FormattedValue) and last.format_spec is None and last.conversion == -1:
            r_ = _ends_with_newline(last.value, prog, fi)  # f"{header}{_LINE_END}" with a string constant
            return bool(r_) if r_ is not None else False
        return False
    return None


def file_ops(prog: Program, fi: FuncInfo):
    """CFG of ``fi`` annotated with file operations: node id -> list of (op, call, detail)."""
    # public pieces an observer's call was split into (clear() / write_state() …) are seen through
    fi = flat(prog, fi, fi.cls, keep=("to_dict", "from_dict", "close", "create_header"), public_methods=True)
    inl = Inliner(fi.node)

    def rtxt(e):
        return norm(inl.inline(e))

    cfg = build_cfg(fi.node)
    simple = nx.DiGraph(cfg.g)
    in_loop = set()
    for scc in nx.strongly_connected_components(simple):
        if len(scc) > 1:
            in_loop |= {n.id for n in scc}
    ops: dict[int, list] = {}
    for node in cfg.nodes:
        if node.ast is None or node.kind not in ("stmt", "test", "iter"):
            continue
        root = node.ast if node.kind != "iter" else node.ast.iter
        found = []
        for c in (n for n in walk_no_nested(root) if isinstance(n, ast.Call)):
            if isinstance(c.func, ast.Attribute) and rtxt(c.func.value) in FILE_RECV and c.func.attr in OPS:
                found.append((c.func.attr, c, ""))
                continue
            passes_file = any(rtxt(a) in FILE_RECV for a in c.args) or any(rtxt(k.value) in FILE_RECV for k in c.keywords)
            if passes_file:
                full = prog.resolve_dotted(fi.module, dotted(c.func) or "")
                if full.endswith("jsonio.write_json"):
                    found.append(("write", c, asetab.validate_json_todict()))
                elif full.endswith("extxyz.write_xyz"):
                    found.append(("write+", c, asetab.validate_write_xyz()))
                else:
                    raise AnalysisError(f"{fi.qualname}: file handed to unknown writer `{norm(c.func)}`")
        if found:
            found.sort(key=lambda t: (t[1].lineno, t[1].col_offset))
            ops[node.id] = found
    return cfg, ops, in_loop


def run(prog: Program, L: Ledger) -> None:
    L.explanation = (
        "C16 decided as a typestate analysis: for every TextObserver subclass (discovered), all CFG paths of __call__ are "
        "enumerated and reduced to their sequence of operations on the observer's file (seek/truncate/write/flush; ASE writers are "
        "summarised as one write (write_json) or appended writes (write_xyz), both validated against the installed ASE source). "
        "W1–W4 are checked on each sequence; W5 enumerates every prefix (crash point) and maps it to an abstract file state "
        "{previous content intact, previous+partial record, empty, partial document, complete}, which must be allowed by the clause "
        "for that file kind. Granularity: one file operation (a torn single write is 'partial')."
    )
    L.rule("W1", "every path of an observer call ends with flush() after its last write")
    L.rule("W2", "Logger row and header: exactly one write, of a newline-terminated string, not inside a loop")
    L.rule("W3", "trajectory observer never seeks or truncates; frames go through the append-only writer")
    L.rule("W4", "restart rewrite: seek(0) and truncate() (or truncate(0)) precede the single document write")
    L.rule("W6", "an observer builds each record from per-call state only: no module- or class-level mutable object (a scratch list shared by all loggers) is written by its call")
    L.rule("W5", "at every crash point between file operations: completed log lines/frames stay intact; the restart file is the previous or the new document")

    from ..sharing import shared_escapes

    esc_, n_sh_ = shared_escapes(prog)
    io_esc = [e_ for e_ in esc_ if "/io/" in e_.where]
    for e_ in io_esc:
        L.violation("W6", f"{e_.func}:shared-{e_.name}", e_.where,
                    f"`{e_.name}` ({e_.kind}, created once at {e_.defined}) is {e_.how}: the record under construction lives in an object shared by every observer of the process",
                    "a call that raises part-way (a field function fails) leaves its columns behind: the next completed row — of this or of ANY other logger — carries them in front of its own", e_.name)
    if not io_esc:
        L.ok("W6", "io:per-call-state", "src/quansino/io", f"{n_sh_} candidates in the package")
    tobs = prog.cls("TextObserver")
    # ---- W7 the output file of an observer is opened once
    # The `file` setter opens a path with the observer's *original* mode; for 'w' that truncates.  The constructor is the one
    # place where that is what the user asked for.  Any other store of a path-like value into an observer's `file` (a
    # "reopen" helper run before the next run() call) throws away the lines and frames completed so far.
    L.rule("W7", "a path-backed output file is opened once, by the observer's constructor: no other code stores a path-like value into an observer's `file` (the setter opens with the original mode — 'w' truncates completed output)")
    setter = prog.lookup_setter(tobs, "file")
    if setter is None:
        raise AnalysisError("TextObserver.file setter missing")
    opens_with_mode = any(isinstance(c_, ast.Call) and isinstance(c_.func, ast.Attribute) and c_.func.attr == "open" or (isinstance(c_, ast.Call) and norm(c_.func) == "open") for c_ in ast.walk(setter.node))
    mode_user = any(isinstance(n_, ast.Attribute) and n_.attr in ("mode", "_mode") and isinstance(n_.value, ast.Name) and n_.value.id == "self" for n_ in ast.walk(setter.node))
    n_file_stores = 0
    for fi_ in prog.iter_functions():
        for st_ in walk_no_nested(fi_.node):
            if not isinstance(st_, (ast.Assign, ast.AnnAssign)) or getattr(st_, "value", None) is None:
                continue
            tg_ = st_.targets if isinstance(st_, ast.Assign) else [st_.target]
            if not any(isinstance(t_, ast.Attribute) and t_.attr == "file" for t_ in tg_):
                continue
            n_file_stores += 1
            in_ctor = fi_.name == "__init__" and fi_.cls is not None and prog.is_subclass(fi_.cls, tobs) and any(isinstance(t_, ast.Attribute) and isinstance(t_.value, ast.Name) and t_.value.id == "self" for t_ in tg_)
            if in_ctor:
                L.ok("W7", f"{fi_.qualname}:opens-its-file", f"{fi_.module.relpath}:{st_.lineno}")
                continue
            v_ = st_.value
            pathlike = (isinstance(v_, ast.Call) and norm(v_.func) in ("Path", "pathlib.Path", "str", "os.fspath")) or isinstance(v_, ast.JoinedStr) \
                or (isinstance(v_, ast.Constant) and isinstance(v_.value, str)) or (isinstance(v_, ast.Attribute) and v_.attr == "name") \
                or any(isinstance(n_, ast.Attribute) and n_.attr == "name" for n_ in ast.walk(v_))
            recv_ = next((norm(t_.value) for t_ in tg_ if isinstance(t_, ast.Attribute) and t_.attr == "file"), "")
            appending = any(isinstance(a_, ast.Assign) and a_.lineno < st_.lineno and isinstance(a_.value, ast.Constant) and isinstance(a_.value.value, str) and "w" not in a_.value.value
                            and any(isinstance(t_, ast.Attribute) and t_.attr in ("mode", "_mode") and norm(t_.value) == recv_ for t_ in a_.targets) for a_ in walk_no_nested(fi_.node))
            if pathlike and opens_with_mode and mode_user and not appending:
                L.violation("W7", f"{fi_.qualname}:reopens-file", f"{fi_.module.relpath}:{st_.lineno}",
                            f"`{norm(st_)[:90]}` hands a path to the observer's `file` setter after construction: {setter.qualname} opens it with the observer's original mode",
                            "observer created from a path with mode='w', run(n), close(), run(m): the second open truncates the header and every line/frame of the first run", norm(st_)[:100])
            else:
                L.ok("W7", f"{fi_.qualname}:links-stream", f"{fi_.module.relpath}:{st_.lineno}")
    L.floor("stores into an observer's `file`", n_file_stores, 1)
    observers = [c for c in prog.subclasses(tobs, strict=True)]
    with_call = []
    for c in observers:
        f = prog.lookup_method(c, "__call__")
        if f is not None and not f.is_trivial():
            with_call.append((c, f))
    L.floor("TextObserver subclasses with a real __call__", len(with_call), 3)
    n_crash = 0
    for c, f in with_call:
        kind = _kind(prog, c, f)
        cfg, ops, in_loop = file_ops(prog, f)
        npaths = 0
        for path in cfg.paths(max_back=1, include_exc=False):
            npaths += 1
            seq = []
            for node, _lab in path:
                for op in ops.get(node.id, []):
                    seq.append((op[0], op[1], node.id in in_loop))
            names = [s[0] for s in seq]
            where = f.where
            # ---- W1
            writes = [i for i, s in enumerate(seq) if s[0].startswith("write")]
            if writes:
                after = names[writes[-1] + 1:]
                L.check("flush" in after, "W1", f"{c.name}.__call__", where,
                        f"a path of {f.qualname} performs `{' '.join(names)}`: no flush() after the last write",
                        "process dies after the call returns: the completed record is still in the user-space buffer and is lost", " ".join(names))
            # ---- kind specific
            if kind == "log":
                nw = len(writes)
                looped = any(seq[i][2] for i in writes)
                L.check(nw == 1 and not looped, "W2", f"{c.name}.__call__:one-write", where,
                        f"a log row is written by {nw}{'+ (inside a loop)' if looped else ''} write operations (`{' '.join(names)}`)",
                        "crash between two writes of one row leaves a partial line", " ".join(names))
                for i in writes:
                    call = seq[i][1]
                    nl = _ends_with_newline(call.args[0], prog, f) if call.args else None
                    L.check(nl is True, "W2", f"{c.name}.__call__:newline", f"{f.module.relpath}:{call.lineno}",
                            f"row `{norm(call)[:80]}` is not visibly newline-terminated", "rows run together / last line incomplete", norm(call)[:120])
            if kind == "trajectory":
                bad = [n for n in names if n in ("seek", "truncate")]
                L.check(not bad, "W3", f"{c.name}.__call__:append-only", where,
                        f"trajectory call performs `{' '.join(names)}`: earlier bytes may be rewritten", "earlier frames are lost or overwritten", " ".join(names))
                L.check(any(n == "write+" for n in names), "W3", f"{c.name}.__call__:writer", where,
                        "trajectory frame is not written through ase.io.extxyz.write_xyz", "", " ".join(names))
            if kind == "restart":
                ok4 = False
                if writes:
                    pre = seq[: writes[0]]
                    pn = [p[0] for p in pre]
                    seek0 = any(p[0] == "seek" and p[1].args and norm(p[1].args[0]) == "0" for p in pre)
                    trunc = any(p[0] == "truncate" for p in pre)
                    trunc0 = any(p[0] == "truncate" and p[1].args and norm(p[1].args[0]) == "0" for p in pre)
                    if seek0 and trunc:
                        # truncate() must come after seek(0) unless truncate(0)
                        if trunc0 or pn.index("seek") < pn.index("truncate"):
                            ok4 = True
                L.check(ok4 and len(writes) == 1, "W4", f"{c.name}.__call__:rewrite", where,
                        f"restart rewrite is `{' '.join(names)}`: it must seek(0), discard the old content, then write one document",
                        "state shrinks (grand canonical deletion): tail of the old, longer document remains after the new one -> invalid JSON; or documents accumulate", " ".join(names))
            # ---- W5 crash points
            for k in range(len(seq) + 1):
                n_crash += 1
                state = _state_after(kind, seq[:k])
                allowed = _allowed(kind)
                cons = f"{c.name}.__call__:crash-after[{' '.join(names[:k]) or 'nothing'}]"
                if state in allowed:
                    L.ok("W5", cons, where, state)
                    continue
                # violations are keyed by the abstract state reached, not by the op spelling
                cons = f"{c.name}.__call__:crash-state[{state.split(' (')[0]}]"
                if False:
                    pass
                else:
                    L.violation("W5", cons, where,
                                f"crash after `{' '.join(names[:k])}` (before `{names[k] if k < len(names) else 'return'}`) leaves the file {state}",
                                _why(kind, state), " ".join(names[:k]))
        L.extra.setdefault("paths", {})[c.name] = npaths
    L.extra["crash_points"] = n_crash
    # header
    lg = prog.cls("Logger")
    wh = lg.methods.get("write_header")
    if wh is None:
        raise AnalysisError("Logger.write_header not found")
    cfg, ops, in_loop = file_ops(prog, wh)
    allops = [o for lst in ops.values() for o in lst]
    w = [o for o in allops if o[0] == "write"]
    L.check(len(w) == 1 and not any(nid in in_loop for nid in ops), "W2", "Logger.write_header:one-write", wh.where,
            f"header written by {len(w)} writes", "partial header on crash", "write_header")
    for o in w:
        L.check(_ends_with_newline(o[1].args[0], prog, wh) is True, "W2", "Logger.write_header:newline", wh.where, "header not newline-terminated", "first row glued to the header", norm(o[1])[:100])


def _kind(prog: Program, c: ClassInfo, f: FuncInfo) -> str:
    names = {k.name for k in prog.mro_classes(c)}
    if "RestartObserver" in names:
        return "restart"
    if "TrajectoryObserver" in names:
        return "trajectory"
    if "Logger" in names:
        return "log"
    # classify unknown observers by what they do: a seek/truncate makes it a rewrite-in-place file
    src = norm(f.node)
    if ".seek(" in src or ".truncate(" in src:
        return "restart"
    return "log"


def _state_after(kind: str, prefix) -> str:
    """Abstract file content after the given completed operations of one call (content on disk
    or in the buffer — a crash loses at most unflushed data of *this* call)."""
    if kind in ("log", "trajectory"):
        st = "previous records intact"
        for op, call, _ in prefix:
            if op in ("seek", "truncate"):
                if op == "truncate":
                    return "with earlier records destroyed"
            elif op.startswith("write"):
                st = "previous records intact + (possibly partial, unflushed) new record"
            elif op == "flush" and "new record" in st:
                st = "previous records intact + complete new record"
        return st
    # restart
    st = "previous document intact"
    pos0 = False
    for op, call, _ in prefix:
        if op == "seek":
            pos0 = bool(call.args) and norm(call.args[0]) == "0"
        elif op == "truncate":
            if (call.args and norm(call.args[0]) == "0") or pos0:
                st = "empty (previous document destroyed, new one not yet written)"
        elif op.startswith("write"):
            if st.startswith("previous"):
                st = "previous document partially overwritten or followed by a second document"
            else:
                st = "new document possibly partial (unflushed)"
        elif op == "flush":
            if st.startswith("new document"):
                st = "new document complete"
    return st


def _allowed(kind: str) -> set[str]:
    if kind in ("log", "trajectory"):
        return {
            "previous records intact",
            "previous records intact + (possibly partial, unflushed) new record",
            "previous records intact + complete new record",
        }
    return {"previous document intact", "new document complete"}


def _why(kind: str, state: str) -> str:
    if kind == "restart":
        return f"the restart file is {state}: loading it fails although a state had been saved before"
    return f"earlier records are not intact: {state}"
