"""C05 — grand-canonical bookkeeping tracks the real system.

On the abstract heap (qsa.absim), for GrandCanonical-type drivers (context chain contains the
exchange bookkeeping) and move tables with one or several label-bearing moves, composites built
like m*2 (same object twice), a+b, and the same move object under two names:
B1 after every trial each label-bearing move object's labels have the length of the atoms (one
   notification per accepted change per distinct move object)
B2 a configured default_label is honoured for every value that is not None (finite case analysis
   None / 0 / negative / positive of the label expression)
B3 the particle counter changes by (+1 per inserted, −1 per deleted particle) on acceptance and not
   otherwise; particle_delta is reset by every save/revert
B4 the exchange template is never written (alias-aware)
B5 distinct particles inserted in one accepted trial receive distinct labels (one label
   assignment per particle)
"""

from __future__ import annotations

import ast

from ..absim import Idx, Ref, V, length, simp
from ..cases import AV, CaseEval, Undecided
from ..loader import AnalysisError, ClassInfo, Program, norm, walk_no_nested
from ..report import Ledger
from ..scenarios import compatible, default_criteria_for, elementary_moves, monte_carlo_drivers, run_all
from ..trial import MoveSpec, Scenario


def gc_scenarios(prog: Program, iterations: int = 1) -> list[Scenario]:
    out = []
    exch_ctx = prog.cls("ExchangeContext")
    for d in monte_carlo_drivers(prog):
        ctx = prog.classvar_class(d, "default_context")
        if ctx is None or exch_ctx not in prog.mro(ctx):
            continue
        moves = [m for m in elementary_moves(prog) if compatible(prog, d, m) and default_criteria_for(prog, d, m) is not None]
        exch = [m for m in moves if "attempt_addition" in {f for c in prog.mro_classes(m) for f in c.methods}]
        disp = [m for m in moves if m not in exch and "labels" in {a for c in prog.mro_classes(m) for a in (c.slots() or [])}]
        for e in exch:
            ec = default_criteria_for(prog, d, e).name
            out.append(Scenario(prog, d, [MoveSpec(e.name)], iterations))
            from ..scenarios import composite_type_of

            comp = composite_type_of(prog, e)
            out.append(Scenario(prog, d, [MoveSpec("CompositeMove", [MoveSpec(e.name), MoveSpec(e.name)], criteria=ec)], iterations))  # plain composite: mixed insert/delete
            if comp is not None:
                out.append(Scenario(prog, d, [MoveSpec(comp.name, [MoveSpec(e.name), 0], criteria=ec)], iterations))
                out.append(Scenario(prog, d, [MoveSpec(comp.name, [MoveSpec(e.name), MoveSpec(e.name)], criteria=ec)], iterations))
            for dm in disp:
                dc = default_criteria_for(prog, d, dm).name
                out.append(Scenario(prog, d, [MoveSpec(dm.name), MoveSpec(e.name)], iterations))
                out.append(Scenario(prog, d, [MoveSpec(dm.name), 0, MoveSpec(e.name)], iterations))  # one object under two names
                dcomp = composite_type_of(prog, dm)
                if dcomp is not None:
                    out.append(Scenario(prog, d, [MoveSpec(dcomp.name, [MoveSpec(dm.name), 0], criteria=dc), MoveSpec(e.name)], iterations))
                    out.append(Scenario(prog, d, [MoveSpec(dcomp.name, [MoveSpec(dm.name), MoveSpec(dm.name)], criteria=dc), MoveSpec(e.name)], iterations))
    return out


def check_trial(prog: Program, sc, rec) -> list[dict]:
    out = []
    scen = f"{rec.driver}×{rec.table}"
    path = " ; ".join(rec.path[-8:])
    m = rec.machine

    def viol(rule, construct, where, detail, stmt=""):
        out.append({"status": "violation", "rule": rule, "construct": construct, "where": where, "detail": detail,
                    "witness": f"scenario {scen}, {rec.outcome} trial of {rec.move_cls}; abstract path: {path}", "stmt": stmt})

    def ok(rule, construct):
        out.append({"status": "ok", "rule": rule, "construct": construct})

    if rec.outcome == "raised":
        return out
    # ---- B4 template
    for ev in rec.events:
        if ev.kind == "template-write":
            viol("B4", f"{ev.func}:template", ev.where, f"`{ev.detail}` in {ev.func} modifies the user's exchange template", "exchange_atoms")
    ok("B4", scen)
    # ---- B1 label alignment for every distinct label-bearing object
    alen = length(m.heap["atoms"]["A"])
    n_ins = _net_segments(rec.after["A"]) - _net_segments(rec.before["A"])
    for obj in sorted(set(sc.label_objs)):
        ci = m.cls_of[obj]
        v = m.heap[obj].get("labels")
        if not (isinstance(v, V) and v.term and v.term[0] == "labels"):
            # the model lost track of the array (an idiom it does not follow): no verdict may rest on that
            out.append({"status": "unsupported", "rule": "B1", "construct": f"{ci.name}.labels", "where": ci.where,
                        "detail": f"labels of {ci.name} are built by an expression the label model does not follow ({v!r})", "witness": "", "stmt": "labels"})
            continue
        llen = length(v.term[1])
        if llen == alen:
            ok("B1", f"{scen}:{obj}")
        else:
            # who notified this object, and how often
            notes = [ev for ev in rec.events if ev.kind == "labels-extend"] + [ev for ev in rec.events if ev.kind == "slot-write" and isinstance(ev.data, dict) and ev.data.get("obj") == obj and ev.data.get("slot") == "labels"]
            fan = _fanout_site(rec, obj)
            viol("B1", f"{fan[0]}:{ci.name}.labels", fan[1],
                 f"after a {rec.outcome} trial the labels of {ci.name} object `{obj}` have length {_fmt(llen)} while the atoms have {_fmt(alen)}: "
                 f"the object was notified {_n_notified(rec, obj)} time(s) for one accepted change (fan-out in {fan[0]})", "labels")
        # ---- B5 one label assignment per inserted particle
        if rec.outcome == "accepted" and n_ins > 1:
            n_ext = sum(1 for ev in rec.events if ev.kind == "labels-extend" and ev.data and _event_obj(ev, m) in (obj, None))
            per_obj = _labels_extend_for(rec, obj)
            if per_obj < n_ins:
                prod = _producer(rec)
                viol("B5", f"{prod[0]}×{ci.name}.on_atoms_changed:single-label", prod[1],
                     f"{n_ins} particles inserted in one accepted trial but {ci.name} `{obj}` assigns one label to all {n_ins} of them "
                     f"({per_obj} label assignment for indices accumulated by {prod[0]}): distinct particles share a label and are later moved/deleted together", "label")
            else:
                ok("B5", f"{scen}:{obj}")
    # ---- B3 counter
    ctx_b, ctx_a = rec.ctx_before, rec.ctx_after
    if "number_of_exchange_particles" in ctx_a:
        b, a = ctx_b.get("number_of_exchange_particles"), ctx_a.get("number_of_exchange_particles")
        want = 0
        if rec.outcome == "accepted":
            n_del = 0
            for ev in rec.events:
                if ev.kind == "atoms-delete" and isinstance(ev.data, dict):
                    n_del += sum(1 for p in ev.data["idx"].parts if p.startswith("where:"))
            want = n_ins - n_del
        delta = _count_delta(b, a)
        if delta == want:
            ok("B3", f"{scen}:{rec.outcome}:counter")
        else:
            w = None
            for ev in rec.events:
                if ev.kind == "slot-write" and isinstance(ev.data, dict) and ev.data.get("slot") in ("number_of_exchange_particles", "particle_delta"):
                    w = ev
            viol("B3", f"{w.func if w else sc.ctx_cls.name + '.save_state'}:counter", w.where if w else sc.ctx_cls.where,
                 f"after a {rec.outcome} trial the particle counter changed by {delta} but the atoms gained {n_ins} and lost {want - n_ins if rec.outcome == 'accepted' else 0} particle(s) (expected change {want})", "number_of_exchange_particles")
        pd = ctx_a.get("particle_delta")
        if rec.outcome in ("accepted", "rejected"):
            if pd == 0:
                ok("B3", f"{scen}:{rec.outcome}:particle_delta-reset")
            else:
                viol("B3", f"{sc.ctx_cls.name}.reset:particle_delta", sc.ctx_cls.where, f"particle_delta is {pd!r} after a {rec.outcome} trial (not reset): it is added again at the next acceptance", "particle_delta")
    return out


def _net_segments(term) -> int:
    """Number of appended particle segments present in a per-atom version term."""
    t = simp(term)
    n = 0
    while isinstance(t, tuple) and t:
        if t[0] == "ext":
            n += 1
            t = t[1]
        elif t[0] in ("del", "reins", "new") and len(t) > 1 and isinstance(t[1 if t[0] != "new" else -1], tuple):
            t = t[1] if t[0] != "new" else t[-1]
        else:
            break
    return n


def _fmt(d: dict) -> str:
    return " + ".join(f"{c}·{k}" if c != 1 else k for k, c in sorted(d.items())) or "0"


def _count_delta(b, a):
    if isinstance(b, V) and isinstance(a, V) and b.term[0] == a.term[0] == "count":
        db, da = dict(b.term[1]), dict(a.term[1])
        d = {k: da.get(k, 0) - db.get(k, 0) for k in set(db) | set(da)}
        d = {k: v for k, v in d.items() if v}
        if not d:
            return 0
        if set(d) == {"1"}:
            return d["1"]
        return repr(d)
    return f"{b!r}->{a!r}"


def _event_obj(ev, m):
    return None


def _n_notified(rec, obj) -> int:
    return sum(1 for c in rec.calls if c.endswith(".on_atoms_changed") and not c.startswith("Composite"))


def _labels_extend_for(rec, obj) -> int:
    # number of label assignments (np.full(count, label)) performed while this object's labels were extended
    n = 0
    for ev in rec.events:
        if ev.kind == "slot-write" and isinstance(ev.data, dict) and ev.data.get("obj") == obj and ev.data.get("slot") == "labels":
            val = ev.data.get("value")
            if isinstance(val, V) and val.term[0] == "labels" and isinstance(val.term[1], tuple) and val.term[1] and val.term[1][0] == "extn":
                n += 1
    return n


def _fanout_site(rec, obj):
    """The innermost fan-out loop owner on the notification path (composite or driver)."""
    owner = None
    for c in rec.calls:
        if c.endswith(".on_atoms_changed") and c.startswith("Composite"):
            owner = c
        elif c.endswith(".save_state") and owner is None:
            owner = c
    for ev in rec.events:
        pass
    return (owner or "save_state", "")


def _producer(rec):
    for ev in rec.events:
        if ev.kind == "slot-write" and isinstance(ev.data, dict) and ev.data.get("slot") == "_added_indices" and ev.func and "reset" not in ev.func:
            last = (ev.func, ev.where)
    try:
        return last
    except UnboundLocalError:
        return (rec.move_cls + ".__call__", "")


def check_default_label(prog: Program, L: Ledger) -> None:
    """B2: finite case analysis of the label chosen for new atoms."""
    from ..normalize import flat

    n = 0
    for ci in prog.classes.values():
        f0 = ci.methods.get("on_atoms_changed")
        if f0 is None:
            continue
        f = flat(prog, f0, ci, keep=("set_labels",), public_methods=True)  # extracted public helpers (`new_atoms_label()`) are seen through
        # the label-selection construct: `label = <expr mentioning default_label>` or an if-chain testing default_label
        # that binds the label (the shape a helper with early returns takes once inlined)
        sites = []

        def find(stmts):
            for st in stmts:
                if isinstance(st, (ast.Assign, ast.AnnAssign)) and st.value is not None and "default_label" in norm(st.value):
                    sites.append(st)
                elif isinstance(st, ast.If) and "default_label" in norm(st.test):
                    sites.append(st)
                elif isinstance(st, (ast.If, ast.For, ast.While, ast.With, ast.Try)):
                    for fld in ("body", "orelse", "finalbody"):
                        find(getattr(st, fld, []) or [])
                    for h in getattr(st, "handlers", []) or []:
                        find(h.body)

        find(f.body())
        for st in sites:
            n += 1
            for case, av in (("0", AV("int0", "default_label")), ("-1 (do-not-touch)", AV("intneg", "default_label")), ("5", AV("intpos", "default_label")), ("None", AV("none", "default_label"))):
                ev = CaseEval({"self.default_label": av})
                try:
                    if isinstance(st, ast.If):
                        names = sorted({x.id for x in ast.walk(st) if isinstance(x, ast.Name) and isinstance(x.ctx, ast.Store)})
                        ev.run([st])
                        vals = [ev.env[k] for k in names if k in ev.env]
                        got = vals[0] if len(vals) == 1 else None
                        if len(vals) > 1:
                            raise AnalysisError(f"{f.qualname}: label selection `{norm(st.test)[:60]}` binds several names {names}")
                    else:
                        got = ev.ev(st.value)
                except Undecided:
                    got = None
                cons = f"{f.qualname}[default_label={case}]"
                where = f"{f.module.relpath}:{st.lineno}"
                if case == "None":
                    L.check(got is None or got.origin != "default_label", "B2", cons, where, "with no configured label the expression must fall back to an automatic label", "", norm(st)[:120])
                    continue
                if got is None:
                    raise AnalysisError(f"{f.qualname}: label expression `{norm(st)[:80]}` undecidable for default_label={case}")
                L.check(got.origin == "default_label", "B2", cons, where,
                        f"for default_label={case} the label given to new atoms is `{got}` instead of the configured value: `{norm(st)[:120]}`",
                        f"default_label={case}: inserted atoms get an automatic label (they become displaceable/deletable although configured otherwise)", norm(st)[:160])
    L.floor("label-selection expressions using default_label", n, 1)
    # R-TRUTHY on the slot
    from ..truthy import scan_all

    for site in scan_all(prog):
        if "default_label" in norm(site.expr) and site.verdict == "optnum":
            L.violation("B2", f"{site.func.qualname}:truthiness", f"{site.func.module.relpath}:{site.expr.lineno}", f"`{norm(site.expr)}` is truth-tested although its type is {site.type_text}", site.witness, norm(site.expr))


def run(prog: Program, L: Ledger) -> None:
    L.explanation = (
        "C05 decided on the abstract heap of qsa.absim for every grand-canonical scenario (drivers whose context carries the exchange "
        "bookkeeping × tables with one or several label-bearing moves, composites built like m*2 — the same object twice —, a+b, mixed): "
        "labels are symbolic per-atom arrays whose length (a linear form over segment sizes) must equal the atoms' after every accepted, "
        "rejected or failed trial on every abstract path; the particle counter is a symbolic count that must change by inserted minus "
        "deleted particles exactly on acceptance; the template object is alias-tracked and must never be written; one label assignment "
        "per inserted particle. default_label is decided by finite case analysis (None/0/negative/positive). The per-trial facts are "
        "inductive, so they cover all histories. Not decided: plain CompositeMoves of several exchange moves deleting sequentially (index "
        "invalidation), cross-level sharing of one move object between the table and a composite."
    )
    L.rule("B1", "after every trial each distinct label-bearing move object's labels have the atoms' length (one notification per accepted change per object)")
    L.rule("B2", "default_label: int|None is honoured for every value that is not None (0 and negative included)")
    L.rule("B3", "particle counter += inserted − deleted particles exactly on acceptance; particle_delta reset by every save/revert")
    L.rule("B4", "no mutator is ever called on the exchange template or an alias of it")
    L.rule("B5", "distinct particles inserted in one accepted trial get distinct label assignments")

    check_default_label(prog, L)
    from . import c11

    L.rule("B6", "labels and the unique-label cache used to pick fresh labels are written by set_labels only (who-may-write), so the cache cannot hide a label an atom still carries")
    c11.check_label_writers(prog, L, "B6")
    scs = gc_scenarios(prog, 1)
    if L.tier == "thorough":
        scs += [s for s in gc_scenarios(prog, 2) if len(s.table) == 1 and s.table[0].children is None or len(s.table) == 2 and all(t.children is None for t in s.table)]
    L.floor("grand-canonical scenarios", len(scs), 5)
    results = run_all(prog, "qsa.props.c05", scs)
    tot_paths = tot_trials = 0
    per = {}
    for label, stats, findings, oks, err in results:
        if err:
            raise AnalysisError(f"scenario {label}: {err}")
        tot_paths += stats["paths"]
        tot_trials += stats["trials"]
        per[label] = stats
        for rule, construct, n in oks:
            L.ok(rule, construct, "", f"{n} trials")
        for f in findings:
            L.violation(f["rule"], f["construct"], f["where"], f["detail"], f["witness"], f.get("stmt", ""))
    L.extra["scenarios"] = per
    L.extra["abstract_paths"] = tot_paths
    L.extra["trials_checked"] = tot_trials
    L.floor("abstract trials checked", tot_trials, 300)
