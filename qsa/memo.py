"""Memoised values (rule M, shared by every property): a value computed under a guard on its own cache attribute and kept
between calls must be *transparent* — keyed on, refreshed from, or reset by every writer of each mutable input it was
computed from.  Otherwise the function's result depends on the history of calls, which no property allows on its path
("parameters changed on the simulation object apply to the next trial", "for any masses", "the same objects after a
restart", ...).

Shape recognised (a *memo site*), anywhere in the package outside constructors / from_dict:

    if <test mentioning C ...>:            C = owner.attr, owner = self | a parameter | a local alias of either
        C = <value>                        (possibly a tuple (key, value); companion attributes of the same owner assigned
    ... use C ...                           in the same branch form one group)

or the early-return form (`if C is not None and <key test>: return C[...]` followed by the store).

For a site:   deps  = access paths read by the stored value (locals inlined; `self.m()` followed into the callee);
              keys  = the non-cache sides of the comparisons in the guard (value: ==, !=, array_equal; identity: is);
              a dep is covered when it is a key (not merely under len()), is refreshed on the hit path, or every writer of it
              outside the constructor also stores into the cache group (reset).
ASE Atoms content is split into components (positions, masses, numbers, cell, ...), through a small getter table.
A site with an uncovered dep is *opaque*: the report names the dep and the public way to change it.
Nothing is executed; a site whose shape is outside the fragment is reported as undecided (AnalysisError for the
properties on whose path it lies), never silently passed.
"""

from __future__ import annotations

import ast
import copy
import re
from dataclasses import dataclass, field

from .loader import AnalysisError, FuncInfo, Program, norm, walk_no_nested

SKIP_FUNCS = {"__init__", "from_dict", "__setstate__", "__new__", "__init_subclass__"}

# ASE Atoms: which content components a getter reads (validated by name against ase.atoms in asetab where listed there)
ATOMS_GETTERS = {
    "get_masses": {"masses"}, "get_positions": {"positions"}, "positions": {"positions"}, "get_scaled_positions": {"positions", "cell"},
    "get_moments_of_inertia": {"positions", "masses"}, "get_center_of_mass": {"positions", "masses"},
    "get_cell": {"cell"}, "cell": {"cell"}, "get_volume": {"cell"}, "get_momenta": {"momenta"}, "get_velocities": {"momenta", "masses"},
    "get_atomic_numbers": {"numbers"}, "numbers": {"numbers"}, "symbols": {"numbers"}, "get_chemical_symbols": {"numbers"},
    "get_tags": {"tags"}, "get_kinetic_energy": {"momenta", "masses"}, "get_temperature": {"momenta", "masses"},
    "constraints": {"constraints"}, "arrays": {"arrays"}, "get_array": {"arrays"}, "get_initial_charges": {"arrays"},
    "get_pbc": {"pbc"}, "pbc": {"pbc"},
}
ATOMS_ALL = {"positions", "masses", "numbers", "cell", "momenta", "tags", "arrays", "constraints", "pbc"}
ATOMS_MUTATOR = {"masses": "atoms.set_masses(...)", "positions": "atoms.set_positions(...)", "numbers": "atoms.set_atomic_numbers(...) / atoms.symbols[...] = ...",
                 "cell": "atoms.set_cell(...)", "momenta": "atoms.set_momenta(...)", "tags": "atoms.set_tags(...)", "arrays": "atoms.set_array(...) / set_initial_charges(...)",
                 "constraints": "atoms.set_constraint(...)", "pbc": "atoms.set_pbc(...)"}
_ATOMS_ROOT = re.compile(r"(^|\.)_?\w*atoms$")
_ARRAY_EQ = ("np.array_equal", "numpy.array_equal", "np.allclose", "np.array_equiv")


@dataclass
class Dep:
    text: str
    line: int
    via: str = ""  # callee the dep was found in
    under_len: bool = False


@dataclass
class MemoSite:
    fi: FuncInfo
    owner: str
    group: list[str]
    line: int
    guard: str
    deps: list[Dep] = field(default_factory=list)
    keys: list[str] = field(default_factory=list)
    uncovered: list[tuple[str, str]] = field(default_factory=list)  # (dep text, how to change it)
    undecided: str = ""

    @property
    def construct(self) -> str:
        return f"{self.fi.qualname}:{'/'.join(g.split('.', 1)[1] for g in self.group)}"


def _attr_path(e) -> str | None:
    """`a.b.c` for a pure Name/Attribute chain"""
    parts = []
    while isinstance(e, ast.Attribute):
        parts.append(e.attr)
        e = e.value
    if isinstance(e, ast.Name):
        parts.append(e.id)
        return ".".join(reversed(parts))
    return None


def _is_none(e) -> bool:
    return isinstance(e, ast.Constant) and e.value is None


class _Fn:
    """One function: locals, owners, candidate cache groups"""

    def __init__(self, prog: Program, fi: FuncInfo):
        self.prog, self.fi = prog, fi
        self.params = [a.arg for a in fi.node.args.posonlyargs + fi.node.args.args + fi.node.args.kwonlyargs]
        self.binds: dict[str, list[ast.expr]] = {}
        for n in walk_no_nested(fi.node):
            if isinstance(n, ast.Assign):
                for t in n.targets:
                    self._bind(t, n.value)
            elif isinstance(n, ast.AnnAssign) and n.value is not None:
                self._bind(n.target, n.value)
            elif isinstance(n, ast.NamedExpr):
                self._bind(n.target, n.value)
            elif isinstance(n, ast.AugAssign) and isinstance(n.target, ast.Name):
                self.binds.setdefault(n.target.id, []).append(n.value)
            elif isinstance(n, (ast.For, ast.comprehension)):
                self._bind_iter(n.target, n.iter)
            elif isinstance(n, ast.Call) and isinstance(n.func, ast.Attribute) and isinstance(n.func.value, ast.Name) \
                    and n.func.attr in ("append", "extend", "add", "update", "setdefault", "insert", "__setitem__"):
                # a local container filled step by step: what goes in is what it holds
                for a in list(n.args) + [k.value for k in n.keywords]:
                    self.binds.setdefault(n.func.value.id, []).append(a)
        for n in walk_no_nested(fi.node):
            if isinstance(n, ast.Assign):
                for t in n.targets:
                    if isinstance(t, ast.Subscript) and isinstance(t.value, ast.Name):
                        self.binds.setdefault(t.value.id, []).extend([n.value, t.slice])

    def _bind(self, t, v):
        if isinstance(t, ast.Name):
            self.binds.setdefault(t.id, []).append(v)
        elif isinstance(t, (ast.Tuple, ast.List)):
            if isinstance(v, (ast.Tuple, ast.List)) and len(v.elts) == len(t.elts):
                for a, b in zip(t.elts, v.elts):
                    self._bind(a, b)
            else:
                for i, a in enumerate(t.elts):
                    self._bind(a, ast.Subscript(value=v, slice=ast.Constant(value=i), ctx=ast.Load()))

    def _bind_iter(self, t, it):
        for n in ast.walk(t):
            if isinstance(n, ast.Name):
                self.binds.setdefault(n.id, []).append(ast.Subscript(value=it, slice=ast.Constant(value="<each>"), ctx=ast.Load()))

    def inline(self, e, depth=5, stop=()):
        """locals replaced by what they were bound to (every binding when there are several: a Tuple of alternatives)"""
        me = self

        class T(ast.NodeTransformer):
            def visit_Name(self, node):
                if isinstance(node.ctx, ast.Load) and node.id in me.binds and node.id not in me.params and node.id not in stop and depth > 0:
                    alts = [me.inline(copy.deepcopy(v), depth - 1, stop + (node.id,)) for v in me.binds[node.id]]
                    return alts[0] if len(alts) == 1 else ast.Tuple(elts=alts, ctx=ast.Load())
                return node

        return T().visit(copy.deepcopy(e))


def _chains(e, roots):
    """maximal access chains rooted at a name in `roots`: yields (text, under_len, node).  The text is root + attributes +
    at most one trailing getter call / .values()/.items()/.keys()."""
    out = []

    def chain_text(node):
        # peel: Call(Attribute(...)) / Attribute / Subscript down to the root name
        steps = []
        cur = node
        while True:
            if isinstance(cur, ast.Attribute):
                steps.append(("attr", cur.attr))
                cur = cur.value
            elif isinstance(cur, ast.Call) and isinstance(cur.func, ast.Attribute):
                steps.append(("call", cur.func.attr))
                cur = cur.func.value
            elif isinstance(cur, ast.Subscript):
                steps.append(("sub", None))
                cur = cur.value
            else:
                break
        if not (isinstance(cur, ast.Name) and cur.id in roots):
            return None
        steps.reverse()
        txt = cur.id
        for kind, name in steps:
            if kind == "attr":
                txt += "." + name
            elif kind == "call":
                if name.startswith("get_") or name in ("values", "items", "keys") or name in ATOMS_GETTERS:
                    txt += "." + name + "()"
                break
            else:
                if _ATOMS_ROOT.search(txt):
                    txt += "[]"
                break
        return txt

    def visit(node, under_len):
        if isinstance(node, ast.Call) and norm(node.func) == "len" and len(node.args) == 1:
            visit(node.args[0], True)
            return
        if isinstance(node, (ast.Attribute, ast.Subscript)) or (isinstance(node, ast.Call) and isinstance(node.func, ast.Attribute)):
            t = chain_text(node)
            if t is not None:
                out.append((t, under_len, node))
                # arguments / subscripts inside the chain are expressions of their own
                cur = node
                while isinstance(cur, (ast.Attribute, ast.Subscript, ast.Call)):
                    if isinstance(cur, ast.Call):
                        for a in list(cur.args) + [k.value for k in cur.keywords]:
                            visit(a, False)
                        cur = cur.func
                    elif isinstance(cur, ast.Subscript):
                        visit(cur.slice, False)
                        cur = cur.value
                    else:
                        cur = cur.value
                return
        if isinstance(node, ast.Name) and node.id in roots and isinstance(node.ctx, ast.Load):
            out.append((node.id, under_len, node))
            return
        for ch in ast.iter_child_nodes(node):
            visit(ch, under_len)

    visit(e, False)
    return out


def _components(text: str) -> tuple[str, set[str]] | None:
    """`root.atoms.get_masses()` → (root.atoms, {masses}); `atoms[]` → (atoms, all)"""
    if text.endswith("[]"):
        base = text[:-2]
        if _ATOMS_ROOT.search(base):
            return base, set(ATOMS_ALL)
        return None
    if "." not in text:
        return (text, set(ATOMS_ALL)) if _ATOMS_ROOT.search(text) else None
    base, last = text.rsplit(".", 1)
    last = last[:-2] if last.endswith("()") else last
    if _ATOMS_ROOT.search(base) and last in ATOMS_GETTERS:
        return base, set(ATOMS_GETTERS[last])
    if _ATOMS_ROOT.search(text):
        return text, set(ATOMS_ALL)
    return None


_CACHE_DECOS = {"lru_cache", "cache", "cached_property", "functools.lru_cache", "functools.cache", "functools.cached_property"}


def _deco_site(prog: Program, fi: FuncInfo) -> MemoSite | None:
    """`@lru_cache` / `@cache` / `@cached_property`: the key is the tuple of arguments — by value for numbers and strings,
    by identity (hash) for objects — so whatever the body reads *through* an argument (`context.temperature`, `self.x`,
    `atoms.get_masses()`) is an input the key does not cover.  cached_property has no key at all besides the object."""
    names = set()
    for d in fi.node.decorator_list:
        f = d.func if isinstance(d, ast.Call) else d
        names.add(norm(f))
    hit = names & _CACHE_DECOS
    if not hit:
        return None
    params = [a.arg for a in fi.node.args.posonlyargs + fi.node.args.args + fi.node.args.kwonlyargs]
    F = _Fn(prog, fi)
    site = MemoSite(fi, params[0] if params else "", [f"{fi.qualname}()"], fi.node.lineno, "@" + sorted(hit)[0])
    site.keys = [f"{p} (argument)" for p in params]
    unc: dict[str, str] = {}
    body = ast.Module(body=fi.body(), type_ignores=[])
    for txt, ul, node in _chains(F.inline(body) if False else body, set(params)):
        if ul or "." not in txt and not txt.endswith("[]"):
            continue
        site.deps.append(Dep(txt, getattr(node, "lineno", fi.node.lineno)))
        cc = _components(txt)
        if cc:
            for comp in sorted(cc[1]):
                if len(cc[1]) > 3 and comp != "masses":
                    continue
                unc.setdefault(f"{cc[0]}#{comp}", ATOMS_MUTATOR.get(comp, "a public ASE setter") + " between two calls")
            continue
        parts = txt.split(".")
        if parts[0] == "self" and fi.cls is not None:
            tgt = prog.lookup(fi.cls, parts[1])
            if tgt is not None and isinstance(tgt[1], FuncInfo) and tgt[1].kind != "property":
                continue
            how = _self_attr_uncovered(prog, fi, parts[1], set())
            if how:
                unc.setdefault(".".join(parts[:2]), how)
            continue
        unc.setdefault(".".join(parts[:2]), f"assign `{'.'.join(parts[:2])}` between two calls (the cache key holds `{parts[0]}` by identity)")
    site.uncovered = sorted(unc.items())
    return site


def find_sites(prog: Program) -> list[MemoSite]:
    sites = []
    for fi in prog.iter_functions():
        if fi.name in SKIP_FUNCS:
            continue
        try:
            ds = _deco_site(prog, fi)
            if ds is not None:
                sites.append(ds)
            sites.extend(_sites_in(prog, fi))
        except RecursionError:
            continue
    return sites


def _sites_in(prog: Program, fi: FuncInfo) -> list[MemoSite]:
    F = _Fn(prog, fi)
    owners = set(F.params)
    # local aliases of an owner attribute: `cached = context._w`
    alias: dict[str, str] = {}
    for nm, vals in F.binds.items():
        for v in vals:
            p = _attr_path(v)
            if p and p.split(".")[0] in owners and p.count(".") == 1:
                alias[nm] = p
    # attribute stores `owner.attr = value` (chained targets included), with the enclosing If tests
    stores = []  # (path, value, stmt, [enclosing ifs (node, in_body)])

    def walk(stmts, encl):
        for i, st in enumerate(stmts):
            if isinstance(st, (ast.FunctionDef, ast.AsyncFunctionDef, ast.ClassDef)):
                continue
            if isinstance(st, (ast.Assign, ast.AnnAssign)):
                tg = st.targets if isinstance(st, ast.Assign) else [st.target]
                if getattr(st, "value", None) is not None:
                    for t in tg:
                        for tt in (t.elts if isinstance(t, (ast.Tuple, ast.List)) else [t]):
                            p = _attr_path(tt)
                            if p and p.count(".") == 1 and p.split(".")[0] in owners:
                                stores.append((p, st.value, st, list(encl), stmts, i))
            if isinstance(st, ast.If):
                walk(st.body, encl + [(st, True)])
                walk(st.orelse, encl + [(st, False)])
                # early-return on hit: what follows an If with a returning arm is conditional on it
                if any(isinstance(x, ast.Return) for x in ast.walk(st)):
                    walk(stmts[i + 1:], encl + [(st, None)])
                    return
            elif isinstance(st, (ast.For, ast.While, ast.With, ast.Try)):
                for blk in ("body", "orelse", "finalbody"):
                    walk(getattr(st, blk, []) or [], encl)
                for h in getattr(st, "handlers", []) or []:
                    walk(h.body, encl)

    walk(fi.body(), [])
    if not stores:
        return []

    def mentions(test, paths) -> bool:
        for n in ast.walk(test):
            p = _attr_path(n) if isinstance(n, ast.Attribute) else None
            if p in paths:
                return True
            # getattr(owner, "attr", default) reads owner.attr
            if isinstance(n, ast.Call) and norm(n.func) == "getattr" and len(n.args) >= 2 and isinstance(n.args[0], ast.Name) and isinstance(n.args[1], ast.Constant) \
                    and f"{n.args[0].id}.{n.args[1].value}" in paths:
                return True
            if isinstance(n, ast.Name) and (alias.get(n.id) in paths):
                return True
            if isinstance(n, ast.Name) and n.id in F.binds:
                # unpacked from the cache: `label, atoms = self._last`
                for v in F.binds[n.id]:
                    for m in ast.walk(v):
                        if isinstance(m, ast.Attribute) and _attr_path(m) in paths:
                            return True
                        if isinstance(m, ast.Name) and alias.get(m.id) in paths:
                            return True
        return False

    sites = []
    seen_groups = set()
    for p, v, st, encl, blk, idx in stores:
        if _is_none(v) or isinstance(v, ast.Constant):
            continue
        guards = [(g, arm) for g, arm in encl if mentions(g.test, {p})]
        if not guards:
            continue
        owner = p.split(".")[0]
        if owner == "self" and fi.cls is not None and _consumed_in_call(prog, fi, p.split(".", 1)[1], st.lineno):
            continue  # a per-call slot (pre-selection consumed before the call returns), not a value kept between calls
        # the group: attributes of the same owner stored in the same block under the same guard
        group = sorted({q for q, v2, _s, e2, b2, _i in stores if q.split(".")[0] == owner and b2 is blk and not isinstance(v2, ast.Constant)} | {p})
        gkey = (tuple(group), guards[0][0].lineno)
        if gkey in seen_groups:
            continue
        seen_groups.add(gkey)
        site = MemoSite(fi, owner, group, st.lineno, norm(guards[0][0].test)[:120])
        gset = set(group)
        # all guards mentioning any member of the group
        gtests = [g.test for g, _a in encl if mentions(g.test, gset)]
        # ---- value deps
        roots = set(F.params)
        values = [v2 for q, v2, _s, _e, b2, _i in stores if q in gset and b2 is blk and not _is_none(v2)]
        dep_exprs = [F.inline(x) for x in values]
        deps: list[Dep] = []
        if any(isinstance(c, ast.Call) and re.search(r"(^|\.)_?rng\.", norm(c.func)) for de in dep_exprs for c in ast.walk(de)):
            continue  # a stored random *draw* (pre-selection slot consumed by the caller) is a sample, not a memo of its inputs
        for de in dep_exprs:
            for txt, ul, node in _chains(de, roots):
                if txt in gset or any(txt.startswith(g + ".") or txt.startswith(g + "[") for g in gset):
                    continue
                deps.append(Dep(txt, getattr(node, "lineno", st.lineno), under_len=ul))
            # self.m(...) followed into the callee (reads of self.* there are inputs as well)
            for c in ast.walk(de):
                if isinstance(c, ast.Call) and isinstance(c.func, ast.Attribute) and isinstance(c.func.value, ast.Name) and c.func.value.id == "self" and fi.cls is not None:
                    for d in _callee_reads(prog, fi.cls, c.func.attr, 3, set()):
                        if d.text not in gset:
                            deps.append(d)
        # ---- keys
        keys = []  # (text, under_len, kind)
        refreshed = set()
        for t in gtests:
            for n in ast.walk(t):
                sides = []
                kind = "value"
                if isinstance(n, ast.Compare) and len(n.ops) == 1:
                    if isinstance(n.ops[0], (ast.Is, ast.IsNot)):
                        kind = "identity"
                    elif not isinstance(n.ops[0], (ast.Eq, ast.NotEq)):
                        continue
                    sides = [n.left, n.comparators[0]]
                elif isinstance(n, ast.Call) and norm(n.func) in _ARRAY_EQ and len(n.args) >= 2:
                    sides = n.args[:2]
                if not sides or any(_is_none(s) for s in sides):
                    continue
                for s in sides:
                    if mentions(s, gset):
                        continue
                    si = F.inline(s)
                    for txt, ul, _node in _chains(si, roots):
                        keys.append((txt, ul, kind))
        site.keys = sorted({k[0] + (" (len)" if k[1] else "") + (" (is)" if k[2] == "identity" else "") for k in keys})
        # ---- refresh on the hit path: `C.positions[:] = atoms.positions[...]` in the other arm of the guard
        g0, arm0 = guards[0]
        other = g0.orelse if arm0 is True else (g0.body if arm0 is False else g0.body)
        for n in [x for s_ in other for x in ast.walk(s_)]:
            if isinstance(n, (ast.Assign, ast.AugAssign)):
                tg = n.targets if isinstance(n, ast.Assign) else [n.target]
                for t in tg:
                    base = t
                    while isinstance(base, ast.Subscript):
                        base = base.value
                    bp = _attr_path(base) if isinstance(base, ast.Attribute) else None
                    if bp and any(bp.startswith(g + ".") for g in gset):
                        comp = bp.rsplit(".", 1)[1]
                        if comp in ATOMS_GETTERS:
                            refreshed |= ATOMS_GETTERS[comp]
        # ---- coverage
        unc: dict[str, str] = {}
        key_exact = {k[0] for k in keys if not k[1]}
        key_value = {k[0] for k in keys if not k[1] and k[2] == "value"}
        key_comp: dict[str, set[str]] = {}
        for k, ul, kind in keys:
            cc = _components(k)
            if cc and not ul and kind == "value":
                key_comp.setdefault(cc[0], set()).update(cc[1])
        for d in deps:
            if d.under_len:
                continue
            cc = _components(d.text)
            if cc:
                base, comps = cc
                base_i = base
                missing = comps - key_comp.get(base_i, set()) - refreshed
                # the same atoms reached through an alias chain (`atoms = context.atoms`): compare by last segment
                for kb, kc in key_comp.items():
                    if kb.split(".")[-1] == base_i.split(".")[-1]:
                        missing -= kc
                for comp in sorted(missing):
                    if comp in ("arrays", "tags", "constraints", "pbc", "momenta", "cell", "positions", "numbers") and len(comps) > 3 and "masses" in missing:
                        continue  # one witness per whole-structure copy is enough: masses
                    unc.setdefault(f"{base}#{comp}", ATOMS_MUTATOR.get(comp, "a public ASE setter") + " between two calls")
                continue
            if d.text in key_exact:
                continue
            # the items of a mapping cover its keys and its values
            base_ = re.sub(r"\.(values|keys|items)\(\)$", "", d.text)
            if (base_ + ".items()") in key_exact:
                continue
            # keys of a mapping do not cover its values
            m = re.match(r"^(.*)\.(values|items)\(\)$", d.text)
            if m and (m.group(1) in key_exact or (m.group(1) + ".keys()") in key_exact):
                unc.setdefault(d.text, f"replace the object stored under an existing key of `{m.group(1)}` (the key compares the names only)")
                continue
            if any(k[0] == d.text and k[1] for k in keys):
                unc.setdefault(d.text, f"change what `{d.text}` holds without changing its length (the key compares the length only)")
                continue
            parts = d.text.split(".")
            if len(parts) == 1:
                # a bare parameter handed to the stored value
                if d.text == "self":
                    continue
                unc.setdefault(d.text, f"call with another `{d.text}`")
                continue
            if parts[0] == "self" and fi.cls is not None:
                how = _self_attr_uncovered(prog, fi, parts[1], gset)
                if how:
                    unc.setdefault(".".join(parts[:2]), how)
                continue
            # attribute of a parameter object (context.temperature, context.rng, ...)
            unc.setdefault(".".join(parts[:2]), f"assign `{'.'.join(parts[:2])}` (or hand over another `{parts[0]}`) between two calls")
        site.deps = deps
        # drop deps covered through a key that *is* the dep's parent by value is not assumed; but a key equal to a prefix
        # with further attributes in the dep (context.atoms vs context.atoms.x) is left as uncovered
        site.uncovered = sorted(unc.items())
        if site.deps or site.uncovered:
            sites.append(site)
    return sites


def _resets_const(prog: Program, ci, mname: str, attr: str, site_fn: str | None = None) -> bool:
    fs = []
    f0 = prog.lookup_method(ci, mname)
    if f0 is not None:
        fs.append(f0)
    # overrides in subclasses that still inherit the memoising function (a subclass with its own version of it is another site)
    fs += [sub.methods[mname] for sub in prog.subclasses(ci, strict=True) if mname in sub.methods
           and not (site_fn and any(site_fn in c.methods for c in prog.mro_classes(sub) if c != ci and prog.is_subclass(c, ci)))]
    if not fs:
        return False
    for f in fs:
        ok = False
        for n in walk_no_nested(f.node):
            if isinstance(n, ast.Assign) and isinstance(n.value, ast.Constant):
                for t in n.targets:
                    if isinstance(t, ast.Attribute) and isinstance(t.value, ast.Name) and t.value.id == "self" and t.attr == attr:
                        ok = True
            if isinstance(n, ast.Call) and isinstance(n.func, ast.Attribute) and isinstance(n.func.value, ast.Call) and norm(n.func.value.func) == "super":
                for c in prog.mro_classes(f.cls):
                    if c != f.cls and n.func.attr in c.methods and _resets_const(prog, c, n.func.attr, attr):
                        ok = True
                        break
        if not ok:
            return False
    return True


def _consumed_in_call(prog: Program, fi: FuncInfo, attr: str, line: int) -> bool:
    """every return of the function after the store hands over to a method that resets the slot to a constant
    (`return self.register_success()`), or a reset statement precedes it"""
    rets = [n for n in walk_no_nested(fi.node) if isinstance(n, ast.Return) and n.lineno > line]
    if not rets:
        return False
    last = fi.node.body[-1]
    if not isinstance(last, (ast.Return, ast.If, ast.Raise)):
        return False  # falls off the end without a reset
    for r in rets:
        v = r.value
        if isinstance(v, ast.Call) and isinstance(v.func, ast.Attribute) and isinstance(v.func.value, ast.Name) and v.func.value.id == "self" and _resets_const(prog, fi.cls, v.func.attr, attr, fi.name):
            continue
        return False
    return True


def _callee_reads(prog: Program, ci, mname: str, depth: int, seen: set) -> list[Dep]:
    out: list[Dep] = []
    if depth <= 0 or (ci.qualname, mname) in seen:
        return out
    seen.add((ci.qualname, mname))
    targets = []
    f0 = prog.lookup_method(ci, mname)
    if f0 is not None:
        targets.append(f0)
    for sub in prog.subclasses(ci, strict=True):
        if mname in sub.methods:
            targets.append(sub.methods[mname])
    for f in targets:
        for n in walk_no_nested(f.node):
            if isinstance(n, ast.Attribute) and isinstance(n.value, ast.Name) and n.value.id == "self" and isinstance(n.ctx, ast.Load):
                tgt = prog.lookup(f.cls, n.attr) if f.cls is not None else None
                if tgt is not None and isinstance(tgt[1], FuncInfo) and tgt[1].kind not in ("property",):
                    continue  # a method reference; followed below when called
                out.append(Dep(f"self.{n.attr}", n.lineno, via=f.qualname))
            if isinstance(n, ast.Call) and isinstance(n.func, ast.Attribute) and isinstance(n.func.value, ast.Name) and n.func.value.id == "self" and f.cls is not None:
                out.extend(_callee_reads(prog, ci, n.func.attr, depth - 1, seen))
            if isinstance(n, ast.Call) and isinstance(n.func, ast.Attribute) and isinstance(n.func.value, ast.Call) and norm(n.func.value.func) == "super" and f.cls is not None:
                for c in prog.mro_classes(ci):
                    if c != f.cls and n.func.attr in c.methods and prog.is_subclass(f.cls, c):
                        out.extend(_callee_reads(prog, c, n.func.attr, depth - 1, seen))
                        break
    return out


def _self_attr_uncovered(prog: Program, fi: FuncInfo, attr: str, gset: set[str]) -> str | None:
    """None when every writer of self.<attr> outside the constructor also stores into the cache group; otherwise how the
    attribute can change without the cache noticing"""
    ci = fi.cls
    group_attrs = {g.split(".", 1)[1] for g in gset if g.startswith("self.")}
    classes = list(prog.mro_classes(ci)) + prog.subclasses(ci, strict=True)
    # a method (not a property): calling it is followed elsewhere
    tgt = prog.lookup(ci, attr)
    if tgt is not None and isinstance(tgt[1], FuncInfo) and tgt[1].kind not in ("property",):
        return None
    if tgt is not None and isinstance(tgt[1], FuncInfo) and tgt[1].kind == "property":
        setter = prog.lookup_setter(ci, attr)
        if setter is None:
            # read-only property: its own inputs
            out = None
            for n in walk_no_nested(tgt[1].node):
                if isinstance(n, ast.Attribute) and isinstance(n.value, ast.Name) and n.value.id == "self" and isinstance(n.ctx, ast.Load) and n.attr != attr and n.attr not in group_attrs:
                    r = _self_attr_uncovered(prog, fi, n.attr, gset) if n.attr != attr else None
                    out = out or r
            return out
        if _stores_group(prog, setter, group_attrs, classes):
            return None
        return f"assign `obj.{attr} = ...` (property setter {setter.qualname} does not reset the cache)"
    writers = []
    for c in classes:
        for f in list(c.methods.values()) + list(c.setters.values()):
            if f.name in SKIP_FUNCS:
                continue
            for n in walk_no_nested(f.node):
                tg = []
                if isinstance(n, ast.Assign):
                    tg = n.targets
                elif isinstance(n, (ast.AugAssign, ast.AnnAssign)):
                    tg = [n.target]
                for t in tg:
                    for tt in (t.elts if isinstance(t, (ast.Tuple, ast.List)) else [t]):
                        b = tt
                        while isinstance(b, ast.Subscript):
                            b = b.value
                        if isinstance(b, ast.Attribute) and isinstance(b.value, ast.Name) and b.value.id == "self" and b.attr == attr:
                            writers.append(f)
    writers = list({w.qualname: w for w in writers}.values())
    if not writers:
        if attr.startswith("_"):
            return None  # private and never rewritten after construction
        return f"assign `obj.{attr} = ...` between two calls (plain attribute, nothing resets the cache)"
    bad = [w for w in writers if not _stores_group(prog, w, group_attrs, classes) and w.qualname != fi.qualname]
    if bad:
        return f"call {bad[0].qualname}(...) (writes `self.{attr}` without resetting the cache)"
    return None


def _stores_group(prog: Program, f: FuncInfo, group_attrs: set[str], classes, depth: int = 2) -> bool:
    for n in walk_no_nested(f.node):
        tg = []
        if isinstance(n, ast.Assign):
            tg = n.targets
        elif isinstance(n, (ast.AugAssign, ast.AnnAssign)):
            tg = [n.target]
        for t in tg:
            for tt in (t.elts if isinstance(t, (ast.Tuple, ast.List)) else [t]):
                if isinstance(tt, ast.Attribute) and isinstance(tt.value, ast.Name) and tt.value.id == "self" and tt.attr in group_attrs:
                    return True
        if depth > 0 and isinstance(n, ast.Call) and isinstance(n.func, ast.Attribute) and isinstance(n.func.value, ast.Name) and n.func.value.id == "self" and f.cls is not None:
            g = prog.lookup_method(f.cls, n.func.attr)
            if g is not None and g.qualname != f.qualname and _stores_group(prog, g, group_attrs, classes, depth - 1):
                return True
    return False


# ------------------------------------------------------------------------------------------------ reachability
_GENERIC = {"__call__", "copy", "get", "append", "extend", "update", "pop", "items", "values", "keys", "sum", "any", "all"}


def reach(prog: Program, entries: list[FuncInfo], by_name: bool = True) -> dict[str, FuncInfo]:
    by_method: dict[str, list[FuncInfo]] = {}
    by_func: dict[str, list[FuncInfo]] = {}
    for f in prog.iter_functions():
        (by_method if f.cls is not None else by_func).setdefault(f.name, []).append(f)
    out: dict[str, FuncInfo] = {}
    todo = list(entries)
    while todo:
        f = todo.pop()
        k = f.qualname + "@" + f.module.name
        if k in out:
            continue
        out[k] = f
        for n in walk_no_nested(f.node):
            if isinstance(n, ast.Attribute) and isinstance(n.value, ast.Name) and n.value.id == "self" and f.cls is not None and isinstance(n.ctx, ast.Load):
                # properties read through self, methods called through self (subclass overrides included)
                for c in [f.cls] + prog.subclasses(f.cls, strict=True) + [c for c in prog.mro_classes(f.cls)]:
                    g = c.methods.get(n.attr)
                    if g is not None:
                        todo.append(g)
            elif isinstance(n, ast.Call):
                fn = n.func
                if isinstance(fn, ast.Name):
                    todo.extend(by_func.get(fn.id, []))
                elif isinstance(fn, ast.Attribute):
                    if isinstance(fn.value, ast.Call) and norm(fn.value.func) == "super" and f.cls is not None:
                        for c in prog.mro_classes(f.cls):
                            if c != f.cls and fn.attr in c.methods:
                                todo.append(c.methods[fn.attr])
                    elif not (isinstance(fn.value, ast.Name) and fn.value.id == "self"):
                        if by_name and fn.attr not in _GENERIC:
                            todo.extend(by_method.get(fn.attr, []))
                        todo.extend(by_func.get(fn.attr, []))
    return out


# ------------------------------------------------------------------------------------------------ per-property rule
def _methods(prog: Program, names, modules=None, classes=None) -> list[FuncInfo]:
    out = []
    for f in prog.iter_functions():
        if f.name not in names:
            continue
        if modules is not None and not any(m in f.module.name for m in modules):
            continue
        if classes is not None and (f.cls is None or not any(re.search(c, f.cls.name) for c in classes)):
            continue
        out.append(f)
    return out


def entries_for(prog: Program, pid: str) -> tuple[list[FuncInfo], str, bool]:
    """(entry functions, what the path is, follow calls on other objects by method name)"""
    M = lambda *a, **k: _methods(prog, *a, **k)  # noqa: E731
    trial = M({"step", "yield_moves"}, modules=[".mc."]) + M({"__call__"}, modules=[".moves."]) + M({"calculate"}, modules=[".operations."]) + M({"evaluate"}, modules=[".criteria"]) \
        + M({"on_atoms_changed", "on_cell_changed", "save_state", "revert_state"})
    table = {
        "C02": (M({"evaluate"}, modules=[".criteria"]), "the acceptance rule", False),
        "C03": (M({"revert_state", "save_state"}) + M({"__call__"}, modules=[".moves."]), "proposal and undo", False),
        "C04": (M({"revert_state", "save_state", "step", "validate_simulation"}, modules=[".mc."]), "energy bookkeeping", False),
        "C05": (M({"on_atoms_changed", "set_labels"}) + M({"__call__"}, modules=[".moves.exchange", ".moves.composite"]) + M({"save_state", "revert_state"}, modules=[".mc.gcmc", ".mc.contexts"]), "grand-canonical bookkeeping", False),
        "C06": (trial, "the trial path (randomness)", False),
        "C07": (trial, "the trial path (state that a restart does not rebuild)", False),
        "C08": (M({"to_dict", "todict"}), "serialisation", False),
        "C09": (M({"yield_moves", "add_move"}), "move scheduling", False),
        "C10": (M({"calculate"}, modules=[".operations."]), "proposal operations", False),
        "C11": (M({"__call__", "attempt_displacement", "attempt_deformation", "register_success"}, modules=[".moves.displacement", ".moves.composite", ".moves.core"]), "displacement moves", False),
        "C12": (M({"adjust_positions", "adjust_momenta", "adjust_forces", "step"}, modules=[".constraints", ".mc.fbmc"]) + M({"maxwell_boltzmann_distribution"}), "constraint handling", False),
        "C13": (M({"step"}, modules=[".mc.fbmc"]), "the force-bias step", False),
        "C14": (M({"__call__"}, classes=["Hamiltonian"]) + M({"maxwell_boltzmann_distribution"}) + M({"integrate", "step", "__call__"}, modules=[".integrators", ".utils.dynamics"]) + M({"evaluate"}, classes=["Hamiltonian"]), "Hamiltonian proposals", True),
        "C15": (M({"irun", "run", "srun", "call_observers", "step"}, modules=[".mc.driver"]), "observer scheduling", True),
        "C16": (M({"__call__", "attach", "close"}, modules=[".io.", ".observers"]), "observer output", False),
        "C17": (M({"__call__", "__add__", "__mul__", "__rmul__", "__radd__"}, modules=[".moves.composite", ".moves.core", ".operations.composite", ".operations.core"]), "composite dispatch", False),
        "C18": (M({"step", "update_delta", "get_forces_variation_coef", "get_energy_variation_coef"}, modules=[".mc.fbmc"]), "the adaptive step length", False),
        "C19": (M({"__call__"}, modules=[".moves.exchange"]) + M({"reinsert_atoms", "search_molecules"}) + M({"revert_state"}, modules=[".mc.contexts"]), "deletion and reinsertion", False),
        "C20": (M({"save_state", "revert_state", "step", "validate_simulation", "add_move"}, modules=[".mc."]), "the driver's use of moves and criteria", False),
    }
    return table.get(pid, ([], "", False))


_CONTROL = '''
import numpy as np


class Crit:
    def __init__(self):
        self._w = None
        self._k = None
        self._inv = None
        self._pos = None
        self.slot = None

    def stale(self, context):
        mass = context.exchange_atoms.get_masses().sum()
        if self._w is None or self._w[0] != mass:
            self._w = (mass, mass * context.temperature)
        return self._w[1]

    def fresh(self, context):
        key = (context.exchange_atoms.get_masses().sum(), context.temperature)
        if self._k is None or self._k[0] != key:
            self._k = (key, key[0] * context.temperature)
        return self._k[1]

    def inertia(self, atoms):
        if self._inv is None or not np.array_equal(self._pos, atoms.positions):
            self._inv = atoms.get_moments_of_inertia()
            self._pos = atoms.get_positions()
        return self._inv

    def consume(self, context):
        if self.slot is None:
            self.slot = context.rng.choice(3)
        return self.done()

    def done(self):
        self.slot = None
        return True


from functools import lru_cache


@lru_cache(maxsize=None)
def wavelength(context, mass):
    return mass * context.temperature


@lru_cache(maxsize=None)
def pure(mass, temperature):
    return mass * temperature
'''


def positive_control() -> None:
    """the detector is run on a four-function control module on every run: the under-keyed memo and the memo keyed on positions
    only must be found opaque, the fully keyed memo transparent, the consumed random slot ignored — otherwise rule M would
    pass vacuously on a tree that has no memo"""
    import os
    import shutil
    import tempfile

    tmp = tempfile.mkdtemp(prefix="qsa-memoctl-")
    try:
        os.makedirs(os.path.join(tmp, "src", "memoctl"))
        with open(os.path.join(tmp, "src", "memoctl", "__init__.py"), "w", encoding="utf-8") as fh:
            fh.write("")
        with open(os.path.join(tmp, "src", "memoctl", "crit.py"), "w", encoding="utf-8") as fh:
            fh.write(_CONTROL)
        sites = {s.fi.name: s for s in find_sites(Program(tmp, package="memoctl"))}
    finally:
        shutil.rmtree(tmp, ignore_errors=True)
    got = {k: [d for d, _h in v.uncovered] for k, v in sites.items()}
    want = {"stale": ["context.temperature"], "fresh": [], "inertia": ["atoms#masses"], "wavelength": ["context.temperature"], "pure": []}
    if got != want:
        raise AnalysisError(f"rule M positive control: detector found {got}, expected {want}")


# functions reached from the entries on the pinned tree, counted by hand from the printed lists (about 70 % kept as floor)
PATH_FLOORS = {"C02": 5, "C03": 30, "C04": 25, "C05": 23, "C06": 55, "C07": 55, "C08": 22, "C09": 2, "C10": 8, "C11": 10, "C12": 7, "C13": 5,
               "C14": 5, "C15": 20, "C16": 5, "C17": 7, "C18": 7, "C19": 13, "C20": 26}


def check(prog: Program, L, pid: str) -> None:
    """rule M for property `pid`: no opaque memo on the property's path"""
    entries, what, by_name = entries_for(prog, pid)
    if not entries:
        return lambda: None
    positive_control()
    L.rule("M", f"no history-dependent memo on {what}: a value kept between calls (stored under a guard on its own cache attribute) is keyed on, refreshed from, "
                "or reset by every writer of, each mutable input it was computed from")
    reached = reach(prog, entries, by_name=by_name)
    rq = {f.qualname for f in reached.values()}
    sites = find_sites(prog)
    n = 0
    for s in sites:
        if s.fi.qualname not in rq:
            continue
        if pid == "C06" and not any("rng" in d.text for d in s.deps):
            continue
        n += 1
        where = f"{s.fi.module.relpath}:{s.line}"
        if s.uncovered:
            dep, how = s.uncovered[0]
            more = f" (and {len(s.uncovered) - 1} more: {', '.join(d for d, _h in s.uncovered[1:4])})" if len(s.uncovered) > 1 else ""
            L.violation("M", f"{s.construct}:stale[{dep}]", where,
                        f"{s.fi.qualname} keeps `{', '.join(s.group)}` between calls (guard `{s.guard}`; keys: {s.keys or 'none'}) but the stored value also depends on `{dep}`{more}, "
                        f"which is neither a key, nor refreshed on a hit, nor reset by its writers: the value used on {what} is the one computed for an earlier state",
                        f"call once, then {how}, then call again: the result is the one for the old `{dep}`", s.guard)
        else:
            L.ok("M", f"{s.construct}:transparent", where)
            if not s.guard.startswith("@"):
                # (a decorator cache hands out one shared object: what other rules say about it — aliasing of the cached
                # result — is about the code, so only attribute-guard memos count here)
                L.extra.setdefault("rule_M_transparent_sites", []).append(s.construct)
    L.ok("M", f"path:{len(reached)}-functions:{n}-memo-sites:control-ok", "")
    L.extra["rule_M_path_functions"] = len(reached)
    return lambda: L.floor(f"functions on the path of rule M ({what})", len(reached), PATH_FLOORS.get(pid, 1))
