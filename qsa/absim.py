"""Path-sensitive effect / typestate analysis over an abstract heap.

The simulation state is abstracted to named *components* — atoms.{P positions, M momenta,
A other per-atom arrays, C cell, K constraints}, calc.{R results} and calc.atoms.{P, A, C}
— each holding a symbolic *version term* (``init``, ``new#k``, ``ext``/``del``/``reins``
for atom insertion/deletion/re-insertion, ``scaled`` for cell-driven rescaling).  Context,
move and driver objects are heap records whose slots hold abstract values: independent
values (copies), *aliases* of live storage (``atoms.positions`` is the live array: ASE's
setters write in place), fresh Atoms objects, index sets with symbolic sizes, abstract
booleans.  quansino's own method bodies are interpreted over this heap (calls resolved
through the static MRO, ``super()`` included); ASE mutators/getters are summarised by a
table validated against the installed ASE source; conditions that the abstraction cannot
decide (user ``check_move``, random draws, acceptance) branch both ways, and loops are
unrolled up to a bound — every resulting path is explored.  No concrete value is ever
computed and nothing from quansino is imported."""

from __future__ import annotations

import ast
import copy
from dataclasses import dataclass, field

from .loader import AnalysisError, ClassInfo, FuncInfo, Program, dotted, norm


class SimUnsupported(AnalysisError):
    pass


class SimRaise(Exception):
    def __init__(self, what: str, node=None):
        self.what = what
        self.node = node


# ------------------------------------------------------------------ values
@dataclass(frozen=True)
class Ref:
    obj: str
    comp: str | None = None  # None: the object itself


@dataclass(frozen=True)
class V:
    term: tuple


@dataclass(frozen=True)
class FreshAtoms:
    comps: tuple  # ((name, term), ...)

    def get(self, c):
        return dict(self.comps).get(c)


@dataclass(frozen=True)
class Idx:
    parts: tuple  # tuple of part symbols, e.g. ('seg:a1',) or ('where:w1',)

    @property
    def empty(self):
        return len(self.parts) == 0


@dataclass(frozen=True)
class Opaque:
    what: str = ""
    nonnull: bool = False


@dataclass(frozen=True)
class Cand(Opaque):
    """a candidate set of labels known to exclude the listed label tokens (np.setdiff1d(all, taken))"""

    excluded: tuple = ()


@dataclass(frozen=True)
class LabelTok(Opaque):
    """one label drawn from a candidate set; `excluded` = tokens it is known to differ from"""

    tid: str = ""
    excluded: tuple = ()


@dataclass(frozen=True)
class NoneV:
    pass


NONE = NoneV()
NAN = V(("nan",))
EMPTY_ATOMS = FreshAtoms((("P", ("empty",)), ("M", ("empty",)), ("A", ("empty",))))
PER_ATOM = ("P", "M", "A")


@dataclass
class Bound:
    recv: object
    func: FuncInfo


@dataclass
class ClassVal:
    ci: ClassInfo


@dataclass
class UserCallable:
    what: str


class Record:
    """An instance of a plain record class of the package (typing.NamedTuple, or a @dataclass without a hand-written
    __init__): named fields holding abstract values."""

    def __init__(self, ci: ClassInfo, fields: dict):
        self.ci, self.fields = ci, fields

    def __repr__(self):
        return f"Record({self.ci.name}, {self.fields})"


from .loader import record_fields  # noqa: E402,F401


# ------------------------------------------------------------------ terms
def _expand_parts(parts) -> list[str]:
    """index parts as a set of base parts: a `sorted:` token stands for the same indices in ascending order"""
    out = []
    for p in parts:
        if p.startswith("sorted:"):
            out.extend(p[len("sorted:"):].split("+"))
        else:
            out.append(p)
    return out


def _part_names(p: str) -> list[str]:
    return [q.split(":", 1)[1] for q in _expand_parts([p])]


def sorted_idx(ix: "Idx") -> "Idx":
    """np.unique / np.sort of an index array: one `where`/segment part is ascending already; several parts
    concatenated are a different *sequence* once sorted (same set)"""
    if len(ix.parts) <= 1:
        return ix
    return Idx(("sorted:" + "+".join(_expand_parts(ix.parts)),))


def simp(t):
    """Normalise version terms (the algebra of insertion/deletion/re-insertion).  Deletion is by index *set*;
    gathering rows (`sub`) and putting them back (`reins`) are by index *sequence*: they cancel only when the
    rows come back in the order they were taken."""
    if not isinstance(t, tuple) or not t:
        return t
    head = t[0]
    if head == "del":
        x, idx = simp(t[1]), t[2]
        parts = set(_expand_parts(idx))
        # peel appended segments that are entirely deleted
        changed = True
        while changed and parts:
            changed = False
            if isinstance(x, tuple) and x and x[0] == "ext" and ("seg:" + x[2]) in parts:
                parts.discard("seg:" + x[2])
                x = x[1]
                changed = True
        if not parts:
            return x
        return ("del", x, tuple(sorted(parts)))
    if head == "reins":
        x, sub, idx = simp(t[1]), simp(t[2]), tuple(t[3])
        if isinstance(x, tuple) and x and x[0] == "del" and set(x[2]) == set(_expand_parts(idx)):
            if sub == ("sub", x[1], idx):
                return x[1]
        return ("reins", x, sub, idx)
    if head == "ext":
        return ("ext", simp(t[1]), t[2])
    if head == "sub":
        return ("sub", simp(t[1]), tuple(t[2]))
    return t


def length(t) -> dict:
    """Symbolic length of a per-atom term as a linear form {symbol: coefficient}."""
    t = simp(t)
    if not isinstance(t, tuple):
        return {"?": 1}
    h = t[0]
    if h == "init":
        return {"n0": 1}
    if h == "new" and len(t) > 2:
        return length(t[2])
    if h == "empty":
        return {}
    if h == "ext":
        d = dict(length(t[1]))
        d["|" + t[2] + "|"] = d.get("|" + t[2] + "|", 0) + 1
        return _clean(d)
    if h == "extn":  # labels extended by a count given as a linear form
        d = dict(length(t[1]))
        for k, v in t[2]:
            d[k] = d.get(k, 0) + v
        return _clean(d)
    if h == "del":
        d = dict(length(t[1]))
        for p in t[2]:
            for nm in _part_names(p):
                d["|" + nm + "|"] = d.get("|" + nm + "|", 0) - 1
        return _clean(d)
    if h == "reins":
        d = dict(length(t[1]))
        for p in t[3]:
            for nm in _part_names(p):
                d["|" + nm + "|"] = d.get("|" + nm + "|", 0) + 1
        return _clean(d)
    if h == "cat":
        d = dict(length(t[1]))
        for k, v in length(t[2]).items():
            d[k] = d.get(k, 0) + v
        return _clean(d)
    if h == "sub":
        d = {}
        for p in t[2]:
            for nm in _part_names(p):
                d["|" + nm + "|"] = d.get("|" + nm + "|", 0) + 1
        return d
    return {"?" + str(t)[:30]: 1}


def _clean(d):
    return {k: v for k, v in d.items() if v != 0}


def idx_len(ix: Idx) -> tuple:
    d = {}
    for p in ix.parts:
        for nm in _part_names(p):
            k = "|" + nm + "|"
            d[k] = d.get(k, 0) + 1
    return tuple(sorted(d.items()))


# ------------------------------------------------------------------ machine
@dataclass
class Event:
    kind: str
    detail: str
    where: str
    data: object = None
    func: str = ""
    frame: int = 0  # id of the activation of `func`
    inner: str = ""  # the innermost function (a private helper of `func`, or `func` itself)


class Choices:
    """Oracle for nondeterministic decisions; supports exhaustive DFS over choice sequences."""

    def __init__(self, prefix=()):
        self.prefix = list(prefix)
        self.taken: list[tuple[int, int]] = []  # (choice, arity)
        self.labels: list[str] = []

    def choose(self, arity: int, label: str) -> int:
        i = len(self.taken)
        c = self.prefix[i] if i < len(self.prefix) else 0
        self.taken.append((c, arity))
        self.labels.append(f"{label}={c}")
        return c


def all_runs(run_once, limit=4000):
    """Enumerate every choice sequence of ``run_once(Choices)`` depth-first."""
    stack = [()]
    n = 0
    while stack:
        prefix = stack.pop()
        ch = Choices(prefix)
        result = run_once(ch)
        n += 1
        if n > limit:
            raise SimUnsupported(f"path explosion (> {limit} abstract paths)")
        yield ch, result
        # extend: for every decision beyond the prefix, schedule its alternatives
        for i in range(len(ch.taken) - 1, len(prefix) - 1, -1):
            c, ar = ch.taken[i]
            for alt in range(c + 1, ar):
                stack.append(tuple(x for x, _ in ch.taken[:i]) + (alt,))


class Machine:
    LOOP_BOUND = 2

    def __init__(self, prog: Program, choices: Choices):
        self.prog = prog
        self.ch = choices
        self.heap: dict[str, dict[str, object]] = {}
        self.cls_of: dict[str, ClassInfo] = {}
        self.events: list[Event] = []
        self.counter = 0
        self.evals = 0
        self.depth = 0
        self.steps = 0
        self.hooks = {}
        self.case_vars: dict[str, bool] = {}
        self.trace_calls: list[str] = []
        self.frame_ids: list[int] = []
        self.frame_funcs: list = []
        self.frame_counter = 0

    # ------------------------------------------------------------ helpers
    def fresh(self, prefix="v") -> str:
        self.counter += 1
        return f"{prefix}{self.counter}"

    def log(self, kind, detail, node=None, fi=None, data=None):
        where = ""
        if fi is not None and node is not None:
            where = f"{fi.module.relpath}:{getattr(node, 'lineno', 0)}"
        # events are attributed to the innermost *public* activation (a method/function whose name does not start with a
        # single underscore): private helpers are implementation detail, and extracting one must not rename a finding
        inner = fi.qualname if fi is not None else ""
        func, frame = inner, (self.frame_ids[-1] if self.frame_ids else 0)
        for f_, id_ in zip(reversed(self.frame_funcs), reversed(self.frame_ids)):
            nm = f_.name
            if not nm.startswith("_") or (nm.startswith("__") and nm.endswith("__")):
                func, frame = f_.qualname, id_
                break
        self.events.append(Event(kind, detail, where, data, func, frame, inner))

    def new_obj(self, name: str, ci: ClassInfo | None, slots: dict | None = None):
        self.heap[name] = dict(slots or {})
        if ci is not None:
            self.cls_of[name] = ci

    def init_atoms(self):
        self.heap["atoms"] = {"P": ("init", "P"), "M": ("init", "M"), "A": ("init", "A"), "C": ("init", "C"), "K": ("init", "K")}
        self.heap["calc"] = {"R": ("noresults",), "I": ("none",)}  # I: atom set the calculator's per-atom internal state was built for
        self.heap["calcatoms"] = {"P": ("none",), "A": ("none",), "C": ("none",)}

    def config(self):
        a = self.heap["atoms"]
        return (simp(a["P"]), simp(a["C"]), simp(a["A"]))

    def calc_config(self):
        c = self.heap["calcatoms"]
        return (simp(c["P"]), simp(c["C"]), simp(c["A"]))

    def read_energy(self, what: str, node, fi) -> V:
        """Summary of ASE's Calculator.get_property: cache hit iff calc.atoms equals the live
        atoms on positions/cell/numbers; otherwise results are *replaced* and recomputed."""
        cfg = self.config()
        hit = self.calc_config() == cfg and self.heap["calc"]["R"] != ("noresults",)
        if hit:
            r = self.heap["calc"]["R"]
            self.log("energy-read", f"{what}: cache hit", node, fi, {"hit": True, "results": r, "config": cfg})
            if isinstance(r, tuple) and r and r[0] == "res":
                return V(("E", r[1], what))
            return V(("E?", r, what))
        self.evals += 1
        # per-atom internal state (neighbour lists, …): ASE calculators rebuild it when `numbers` is among the reported
        # changes, i.e. when calc.atoms' atom set differs from the live one; otherwise they update it in place
        # assuming it was built for this atom set
        ca_A = simp(self.heap["calcatoms"]["A"])
        I = self.heap["calc"].get("I", ("none",))
        if ca_A != cfg[2] or I == ("none",) or self.heap["calc"]["R"] == ("noresults",) and ca_A == ("none",):
            self.heap["calc"]["I"] = cfg[2]
        elif simp(I) != cfg[2]:
            self.log("calc-stale-state", f"{what}: evaluation with per-atom calculator state built for another atom set", node, fi, {"I": I, "A": cfg[2]})
        self.heap["calc"]["R"] = ("res", cfg)
        ca = self.heap["calcatoms"]
        ca["P"], ca["C"], ca["A"] = cfg[0], cfg[1], cfg[2]
        self.log("energy-eval", f"{what}: evaluation #{self.evals}", node, fi, {"hit": False, "config": cfg})
        return V(("E", cfg, what))

    def value_of(self, av):
        """Copy-in semantics: the content an abstract value denotes right now."""
        if isinstance(av, V):
            return av.term
        if isinstance(av, Ref) and av.comp is not None:
            return self.heap[av.obj].get(av.comp, ("unknown",))
        if isinstance(av, Opaque):
            return ("new", self.fresh("o"))
        if isinstance(av, FreshAtoms):
            return ("atoms", av.comps)
        return ("new", self.fresh("x"))

    # ------------------------------------------------------------ truth
    def truth(self, v, label: str, node=None) -> bool:
        if isinstance(v, bool):
            return v
        if isinstance(v, NoneV):
            return False
        if isinstance(v, (int, float)) and not isinstance(v, bool):
            return bool(v)
        if isinstance(v, str):
            return bool(v)
        if isinstance(v, (list, tuple, dict)):
            return bool(v)
        if isinstance(v, _PySet):
            return bool(v.s)
        if isinstance(v, Idx):
            if v.empty:
                return False
            if all(p.startswith("seg:") or p.startswith("nz:") for p in v.parts):
                return True
            return self.truth(V(("len", idx_len(v))), label, node)
        if isinstance(v, FreshAtoms):
            t = v.get("A")
            if t == ("empty",):
                return False
            return True
        if isinstance(v, V) and v.term and v.term[0] in ("len", "count") and len(v.term) > 1:
            d = dict(v.term[1])
            if not d:
                return False
            if all(c > 0 for c in d.values()) and all(k.startswith("|a") or k in ("|tmpl|", "1") for k in d):
                return True
            if all(c > 0 for c in d.values()):
                # a sum of sizes: non-zero iff some summand is non-zero; one case variable per size symbol
                res = False
                for k in sorted(d):
                    if k.startswith("|a") or k in ("|tmpl|", "1"):
                        res = True
                        continue
                    key = "nonzero:" + k
                    if key not in self.case_vars:
                        self.case_vars[key] = self.ch.choose(2, f"{label}:{k}") == 1
                    res = res or self.case_vars[key]
                return res
            key = "nonzero:" + repr(sorted(d.items()))
            if key not in self.case_vars:
                self.case_vars[key] = self.ch.choose(2, label) == 1
            return self.case_vars[key]
        if isinstance(v, Ref) and v.comp is None:
            return True
        if isinstance(v, (Bound, ClassVal, UserCallable)):
            return True
        return self.ch.choose(2, label) == 1

    # ------------------------------------------------------------ calls
    def call_method(self, recv_name: str, mname: str, args: list, kwargs: dict | None = None, after: ClassInfo | None = None, node=None):
        ci = self.cls_of.get(recv_name)
        if ci is None:
            raise SimUnsupported(f"call of {mname} on untyped object {recv_name}")
        fi = self.prog.lookup_method(ci, mname, after=after)
        if fi is None:
            raise SimRaise(f"AttributeError: {ci.name}.{mname}")
        return self.call_function(fi, [Ref(recv_name)] + args, kwargs or {})

    def call_function(self, fi: FuncInfo, args: list, kwargs: dict):
        self.depth += 1
        if self.depth > 40:
            raise SimUnsupported("call depth exceeded")
        a = fi.node.args
        names = [x.arg for x in a.posonlyargs + a.args]
        if fi.kind == "static" and fi.cls is not None and args and isinstance(args[0], Ref) and args[0].obj in self.cls_of and len(args) > len(names):
            args = args[1:]
        env: dict[str, object] = {}
        for n, v in zip(names, args):
            env[n] = v
        nd = len(a.defaults)
        for i, n in enumerate(names):
            if n not in env:
                if n in kwargs:
                    env[n] = kwargs[n]
                else:
                    j = i - (len(names) - nd)
                    if j >= 0:
                        env[n] = self.ev(a.defaults[j], {}, fi)
                    else:
                        raise SimRaise(f"TypeError: missing argument {n} of {fi.qualname}")
        for x, d in zip(a.kwonlyargs, a.kw_defaults):
            env[x.arg] = kwargs.get(x.arg, self.ev(d, {}, fi) if d is not None else NONE)
        env["__class_cell__"] = fi.cls
        self.trace_calls.append(fi.qualname)
        self.frame_counter += 1
        self.frame_ids.append(self.frame_counter)
        self.frame_funcs.append(fi)
        is_gen = fi.name != "step" and any(isinstance(n, (ast.Yield, ast.YieldFrom)) for n in _walk_fn(fi.node))
        if is_gen:
            env["__yields__"] = []
        try:
            self.block(fi.body(), env, fi)
            r = NONE
        except _Return as ret:
            r = ret.value
        finally:
            self.depth -= 1
            self.frame_ids.pop()
            self.frame_funcs.pop()
        if is_gen:
            return env["__yields__"]  # a generator helper, evaluated eagerly: the values it yields, in order
        return r

    # ------------------------------------------------------------ statements
    def block(self, body, env, fi):
        for st in body:
            self.steps += 1
            if self.steps > 20000:
                raise SimUnsupported("abstract step budget exceeded")
            hk = self.hooks.get("stmt")
            if hk:
                hk(self, st, env, fi)
            if isinstance(st, ast.Match):
                from .loader import lower_match

                low = getattr(st, "_qsa_lowered", False)
                if low is False:
                    low = lower_match(st)
                    st._qsa_lowered = low
                if low is None:
                    raise SimUnsupported(f"{fi.qualname}: `match` with patterns outside the modelled kinds")
                self.block(low, env, fi)
            elif isinstance(st, ast.Assert):
                pass  # assertions state invariants; the abstract run proceeds as if they hold
            elif isinstance(st, ast.Return):
                raise _Return(self.ev(st.value, env, fi) if st.value is not None else NONE)
            elif isinstance(st, ast.If):
                c = self.cond(st.test, env, fi)
                self.block(st.body if c else st.orelse, env, fi)
            elif isinstance(st, ast.For):
                self.do_for(st, env, fi)
            elif isinstance(st, ast.While):
                k = 0
                while True:
                    if not self.cond(st.test, env, fi):
                        break
                    k += 1
                    if k > self.LOOP_BOUND + 1:
                        raise _Prune()
                    try:
                        self.block(st.body, env, fi)
                    except _Break:
                        break
                    except _Continue:
                        continue
            elif isinstance(st, ast.Raise):
                raise SimRaise(norm(st)[:80], st)
            elif isinstance(st, (ast.Assign, ast.AnnAssign)):
                if st.value is None:
                    continue
                v = self.ev(st.value, env, fi)
                for t in (st.targets if isinstance(st, ast.Assign) else [st.target]):
                    self.store(t, v, env, fi, st)
            elif isinstance(st, ast.AugAssign):
                self.augassign(st, env, fi)
            elif isinstance(st, ast.Expr):
                if isinstance(st.value, ast.Constant):
                    continue
                if isinstance(st.value, ast.Yield):
                    if "__yields__" in env:
                        env["__yields__"].append(self.ev(st.value.value, env, fi) if st.value.value is not None else NONE)
                    continue
                if isinstance(st.value, ast.YieldFrom):
                    if "__yields__" in env:
                        v = self.ev(st.value.value, env, fi)
                        if isinstance(v, (list, tuple)):
                            env["__yields__"].extend(v)
                    continue
                self.ev(st.value, env, fi)
            elif isinstance(st, ast.Delete):
                for t in st.targets:
                    self.delete(t, env, fi, st)
            elif isinstance(st, ast.Try):
                try:
                    self.block(st.body, env, fi)
                except SimRaise as e:
                    handled = False
                    for h in st.handlers:
                        hn = norm(h.type) if h.type is not None else ""
                        if not hn or any(x in e.what for x in hn.replace("(", "").replace(")", "").split(", ")):
                            self.block(h.body, env, fi)
                            handled = True
                            break
                    if not handled:
                        raise
                else:
                    self.block(st.orelse, env, fi)
                self.block(st.finalbody, env, fi)
            elif isinstance(st, ast.ImportFrom):
                for al in st.names:
                    full = self.prog.canonical(f"{self.prog._abs_module(fi.module, st.level, st.module)}.{al.name}")
                    ci = self.prog.classes.get(full)
                    env[al.asname or al.name] = ClassVal(ci) if ci else Opaque(full)
            elif isinstance(st, (ast.Pass, ast.Import)):
                continue
            elif isinstance(st, ast.Break):
                raise _Break()
            elif isinstance(st, ast.Continue):
                raise _Continue()
            elif isinstance(st, ast.With):
                self.block(st.body, env, fi)
            elif isinstance(st, (ast.FunctionDef, ast.ClassDef)):
                env[st.name] = Opaque("localdef")
            elif isinstance(st, ast.Assert):
                continue
            else:
                raise SimUnsupported(f"{fi.qualname}: statement `{norm(st)[:60]}`")

    def do_for(self, st: ast.For, env, fi):
        hk = self.hooks.get("for")
        if hk and hk(self, st, env, fi):
            return
        it = self.ev(st.iter, env, fi)
        if isinstance(it, dict):
            it = list(it.keys())
        if isinstance(it, tuple):
            it = list(it)
        if isinstance(it, list):
            seq = it
        elif isinstance(it, _Range):
            # a loop whose body only rebinds local names by call-free arithmetic has no effect on
            # the heap: its trip count is irrelevant to every rule, so it is not branched on
            pure = all(
                isinstance(x, (ast.Assign, ast.AugAssign)) and all(isinstance(t, ast.Name) for t in (x.targets if isinstance(x, ast.Assign) else [x.target]))
                and not any(isinstance(c, (ast.Call, ast.Attribute)) for c in ast.walk(x.value))
                for x in st.body
            )
            if pure:
                self.store(st.target, Opaque("i"), env, fi, st)
                self.block(st.body, env, fi)
                return
            # loop with an unknown trip count: choose 0..LOOP_BOUND iterations
            n = self.ch.choose(self.LOOP_BOUND + 1, f"trips@{st.lineno}")
            seq = [Opaque("i")] * n
            for item in seq:
                self.store(st.target, item, env, fi, st)
                try:
                    self.block(st.body, env, fi)
                except _Break:
                    return
                except _Continue:
                    continue
            if n == self.LOOP_BOUND and not it.exact:
                pass
            self.block(st.orelse, env, fi)
            return
        else:
            n = self.ch.choose(self.LOOP_BOUND + 1, f"trips@{st.lineno}")
            seq = [Opaque("item")] * n
        for item in seq:
            self.store(st.target, item, env, fi, st)
            try:
                self.block(st.body, env, fi)
            except _Break:
                return
            except _Continue:
                continue
        self.block(st.orelse, env, fi)

    def cond(self, test, env, fi) -> bool:
        key = norm(test)
        v = self.ev(test, env, fi)
        return self.truth(v, f"{fi.name}:{key[:40]}@{getattr(test, 'lineno', 0)}", test)

    # ------------------------------------------------------------ stores
    def store(self, t, v, env, fi, st):
        if isinstance(t, ast.Name):
            env[t.id] = v
            return
        if isinstance(t, (ast.Tuple, ast.List)):
            if isinstance(v, (tuple, list)) and len(v) == len(t.elts):
                for a, b in zip(t.elts, v):
                    self.store(a, b, env, fi, st)
            elif len(t.elts) == 1:
                self.store(t.elts[0], v if not isinstance(v, (tuple, list)) else v[0], env, fi, st)
            else:
                for a in t.elts:
                    self.store(a, Opaque("unpacked"), env, fi, st)
            return
        if isinstance(t, ast.Attribute):
            o = self.ev(t.value, env, fi)
            self.setattr(o, t.attr, v, fi, st)
            return
        if isinstance(t, ast.Subscript):
            base = self.ev(t.value, env, fi)
            full_slice = isinstance(t.slice, ast.Slice) and t.slice.lower is None and t.slice.upper is None and t.slice.step is None
            if isinstance(base, Ref) and base.comp is not None and full_slice and base.obj == "atoms":
                # x[:] = v  overwrites the whole live array in place: same effect as the property setter
                self.write_comp(base.obj, base.comp, self.value_of(v), f"{base.obj}.{base.comp}[:] = …", st, fi, raw=True, src=v)
                return
            if isinstance(base, Ref) and base.comp is not None:
                # in-place partial write into live storage
                self.heap[base.obj][base.comp] = ("new", self.fresh("w"))
                self.log("raw-write", f"{base.obj}.{base.comp}[...] = ...", st, fi, {"obj": base.obj, "comp": base.comp, "partial": True})
                return
            if isinstance(base, dict):
                k = self.ev(t.slice, env, fi)
                try:
                    base[k] = v
                except TypeError:
                    pass
                return
            if full_slice and isinstance(t.value, ast.Attribute) and not isinstance(base, (Ref, dict, list)):
                # slot[:] = v on a stored array / Cell: the slot's object now holds a copy of v's contents (for the slot
                # itself the same effect as rebinding it to a copy; other names bound to that object are not followed)
                o = self.ev(t.value.value, env, fi)
                if isinstance(o, Ref) and o.comp is None and o.obj != "atoms":
                    self.setattr(o, t.value.attr, V(self.value_of(v)) if not isinstance(v, V) else v, fi, st)
                    return
            return  # writes into local temporaries (arrays, lists) are not tracked
        raise SimUnsupported(f"{fi.qualname}: store `{norm(t)}`")

    def setattr(self, o, attr, v, fi, st):
        if isinstance(o, Ref) and o.comp is None:
            name = o.obj
            if name == "atoms":
                if attr == "positions":
                    self.write_comp("atoms", "P", self.value_of(v), "atoms.positions = …", st, fi, raw=True, src=v)
                elif attr == "cell":
                    self.write_comp("atoms", "C", self.value_of(v), "atoms.cell = …", st, fi, raw=True, src=v)
                elif attr == "calc":
                    pass
                elif attr == "constraints":
                    self.write_comp("atoms", "K", self.value_of(v), "atoms.constraints = …", st, fi, raw=True, src=v)
                else:
                    self.log("atoms-attr-write", f"atoms.{attr} = …", st, fi)
                return
            if name == "calc":
                if attr == "results":
                    self.heap["calc"]["R"] = self.value_of(v)
                    self.log("calc-write", "calc.results = …", st, fi, {"src": v})
                elif attr == "atoms":
                    if isinstance(v, FreshAtoms):
                        for c in ("P", "A", "C"):
                            self.heap["calcatoms"][c] = v.get(c)
                    elif isinstance(v, Ref) and v.obj == "atoms":
                        raise SimUnsupported("calc.atoms aliased to the live atoms")
                    else:
                        for c in ("P", "A", "C"):
                            self.heap["calcatoms"][c] = ("new", self.fresh("ca"))
                    self.log("calc-write", "calc.atoms = …", st, fi, {"src": v})
                return
            if name == "calcatoms":
                m = {"positions": "P", "cell": "C"}.get(attr)
                if m:
                    self.heap["calcatoms"][m] = self.value_of(v)
                    self.log("calc-write", f"calc.atoms.{attr} = …", st, fi, {"src": v})
                return
            if name in self.heap:
                ci = self.cls_of.get(name)
                if ci is not None:
                    setter = self.prog.lookup_setter(ci, attr)
                    if setter is not None:
                        self.call_function(setter, [o, v], {})
                        return
                self.heap[name][attr] = v
                self.log("slot-write", f"{name}.{attr}", st, fi, {"obj": name, "slot": attr, "value": v})
                return
        if isinstance(o, Record):
            o.fields[attr] = v
            return
        if isinstance(o, FreshAtoms):
            return  # writes on scratch copies are invisible
        if isinstance(o, Opaque):
            return
        raise SimUnsupported(f"{fi.qualname}: attribute store on {o!r}.{attr}")

    def write_comp(self, obj, comp, term, what, node, fi, raw=False, src=None, constraint_aware=None):
        old = self.heap[obj].get(comp)
        self.heap[obj][comp] = simp(term)
        self.log("write", what, node, fi, {"obj": obj, "comp": comp, "raw": raw, "src": src, "old": old, "new": simp(term), "constraint_aware": constraint_aware})

    def augassign(self, st: ast.AugAssign, env, fi):
        t = st.target
        cur = self.ev(t, env, fi)
        val = self.ev(st.value, env, fi)
        if isinstance(cur, FreshAtoms) and isinstance(st.op, ast.Add):
            new = self.atoms_extend_value(cur, val)
            self.store(t, new, env, fi, st)
            return
        if isinstance(cur, Ref) and cur.obj == "atoms" and cur.comp is None and isinstance(st.op, ast.Add):
            self.atoms_extend(val, st, fi)
            return
        if isinstance(cur, Ref) and cur.comp is not None:
            self.heap[cur.obj][cur.comp] = ("new", self.fresh("w"))
            self.log("raw-write", f"{cur.obj}.{cur.comp} {type(st.op).__name__}= …", st, fi, {"obj": cur.obj, "comp": cur.comp})
            return
        if isinstance(cur, V) and cur.term and cur.term[0] == "count":
            d = dict(cur.term[1])
            delta = self.as_count(val)
            if delta is None:
                self.store(t, Opaque("count?"), env, fi, st)
                return
            sign = 1 if isinstance(st.op, ast.Add) else (-1 if isinstance(st.op, ast.Sub) else None)
            if sign is None:
                self.store(t, Opaque("count?"), env, fi, st)
                return
            for k, c in delta:
                d[k] = d.get(k, 0) + sign * c
            self.store(t, V(("count", tuple(sorted(_clean(d).items())))), env, fi, st)
            return
        if isinstance(cur, (int, float)) and isinstance(val, (int, float)):
            opf = {ast.Add: lambda a, b: a + b, ast.Sub: lambda a, b: a - b, ast.Mult: lambda a, b: a * b}.get(type(st.op))
            if opf:
                self.store(t, opf(cur, val), env, fi, st)
                return
        self.store(t, Opaque("aug"), env, fi, st)

    def as_count(self, v):
        if isinstance(v, bool):
            return None
        if isinstance(v, int):
            return (("1", v),) if v else ()
        if isinstance(v, V) and v.term and v.term[0] == "count":
            return v.term[1]
        if isinstance(v, V) and v.term and v.term[0] == "len":
            return v.term[1]
        return None

    def delete(self, t, env, fi, st):
        if isinstance(t, ast.Subscript):
            base = self.ev(t.value, env, fi)
            idx = self.ev(t.slice, env, fi)
            if isinstance(base, Ref) and base.obj == "atoms" and base.comp is None:
                if isinstance(idx, list) and not idx:
                    return
                if not isinstance(idx, Idx):
                    raise SimUnsupported(f"{fi.qualname}: `del atoms[{norm(t.slice)}]` with untracked indices")
                self.atoms_delete(idx, st, fi)
                return
            return
        if isinstance(t, ast.Name):
            env.pop(t.id, None)
            return
        raise SimUnsupported(f"{fi.qualname}: delete `{norm(t)}`")

    # ------------------------------------------------------------ atoms primitives
    def atoms_extend(self, other, node, fi):
        seg = self.fresh("a")
        if isinstance(other, Ref) and other.obj == "template":
            self.log("template-read", "atoms.extend(template)", node, fi)
        a = self.heap["atoms"]
        for c in PER_ATOM:
            self.write_comp("atoms", c, ("ext", a[c], seg), "atoms.extend(…)", node, fi)
        self.log("atoms-extend", seg, node, fi, {"seg": seg, "other": other})
        return seg

    def atoms_extend_value(self, cur: FreshAtoms, other) -> FreshAtoms:
        comps = dict(cur.comps)
        if isinstance(other, FreshAtoms):
            for c in PER_ATOM:
                oc = other.get(c)
                comps[c] = oc if comps.get(c) == ("empty",) else ("cat", comps.get(c), oc)
        else:
            for c in PER_ATOM:
                comps[c] = ("cat", comps.get(c), ("new", self.fresh("x")))
        return FreshAtoms(tuple(sorted(comps.items())))

    def atoms_delete(self, idx: Idx, node, fi):
        a = self.heap["atoms"]
        for c in PER_ATOM:
            self.write_comp("atoms", c, ("del", a[c], idx.parts), "del atoms[…]", node, fi)
        # ASE's __delitem__ re-indexes / drops FixAtoms constraints — unless only atoms appended
        # in this trial (never constrained) are removed
        if not all(p.startswith("seg:") for p in idx.parts):
            self.write_comp("atoms", "K", ("reindexed", a["K"], idx.parts), "del atoms[…] (constraints re-indexed by ASE)", node, fi)
        self.log("atoms-delete", str(idx.parts), node, fi, {"idx": idx})

    def atoms_sub(self, idx: Idx) -> FreshAtoms:
        a = self.heap["atoms"]
        return FreshAtoms(tuple(sorted((c, simp(("sub", a[c], idx.parts))) for c in PER_ATOM)))

    def atoms_copy(self) -> FreshAtoms:
        a = self.heap["atoms"]
        return FreshAtoms(tuple(sorted((c, simp(a[c])) for c in ("P", "M", "A", "C", "K"))))

    def reinsert(self, new_atoms, idx, node, fi):
        if not isinstance(new_atoms, FreshAtoms) or not isinstance(idx, Idx):
            raise SimUnsupported("reinsert_atoms with untracked arguments")
        a = self.heap["atoms"]
        for c in PER_ATOM:
            self.write_comp("atoms", c, ("reins", a[c], new_atoms.get(c), idx.parts), "reinsert_atoms(…)", node, fi)
        self.log("atoms-reinsert", str(idx.parts), node, fi)

    def atoms_method(self, recv: Ref, name: str, args, kwargs, node, fi):
        a = self.heap["atoms"]
        if name == "get_positions":
            return V(simp(a["P"]))
        if name == "get_momenta":
            return V(simp(a["M"]))
        if name == "get_cell":
            return V(simp(a["C"]))
        if name == "copy":
            return self.atoms_copy()
        if name in ("get_potential_energy", "get_forces", "get_stress", "get_total_energy"):
            e = self.read_energy(name, node, fi)
            if name == "get_total_energy":
                return V(("Etot", e.term, simp(a["M"])))
            return e
        if name == "get_kinetic_energy":
            return V(("Ekin", simp(a["M"])))
        if name in ("get_volume", "get_masses", "get_number_of_degrees_of_freedom", "get_center_of_mass", "get_moments_of_inertia", "get_temperature", "get_chemical_symbols", "get_atomic_numbers", "get_array", "get_velocities", "get_scaled_positions"):
            return Opaque(name)
        if name == "__len__":
            return V(("len", tuple(sorted(length(a["A"]).items()))))
        if name == "set_positions":
            ac = kwargs.get("apply_constraint", args[1] if len(args) > 1 else True)
            src = args[0] if args else None
            exact = ac is False and isinstance(src, (V, Ref))  # no constraint applied: the array is stored as given
            term = self.value_of(src) if exact else ("new", self.fresh("p"), simp(a["P"]))
            self.write_comp("atoms", "P", term, "atoms.set_positions(…)", node, fi, src=src, constraint_aware=ac, raw=exact)
            return NONE
        if name == "set_momenta":
            ac = kwargs.get("apply_constraint", args[1] if len(args) > 1 else True)
            src = args[0] if args else None
            exact = ac is False and isinstance(src, (V, Ref))
            term = self.value_of(src) if exact else ("new", self.fresh("m"), simp(a["M"]))
            self.write_comp("atoms", "M", term, "atoms.set_momenta(…)", node, fi, src=src, constraint_aware=ac, raw=exact)
            return NONE
        if name == "set_array":
            which = args[0] if args else None
            if which == "momenta":
                self.write_comp("atoms", "M", self.value_of(args[1]), "atoms.set_array('momenta', …)", node, fi, raw=True, src=args[1])
            elif which == "positions":
                self.write_comp("atoms", "P", self.value_of(args[1]), "atoms.set_array('positions', …)", node, fi, raw=True, src=args[1])
            else:
                self.write_comp("atoms", "A", ("new", self.fresh("arr")), f"atoms.set_array({which!r}, …)", node, fi)
            return NONE
        if name == "set_cell":
            scale = kwargs.get("scale_atoms", args[1] if len(args) > 1 else False)
            ac = kwargs.get("apply_constraint", args[2] if len(args) > 2 else True)
            newc = self.value_of(args[0])
            oldc = a["C"]
            sc = self.truth(scale, f"scale_atoms@{getattr(node, 'lineno', 0)}") if not isinstance(scale, bool) else scale
            if sc:
                self.write_comp("atoms", "P", ("scaled", simp(a["P"]), simp(oldc), simp(newc)), "atoms.set_cell(…, scale_atoms=True) [positions]", node, fi, constraint_aware=ac)
            self.write_comp("atoms", "C", newc, "atoms.set_cell(…)", node, fi, src=args[0], constraint_aware=ac)
            return NONE
        if name == "extend":
            self.atoms_extend(args[0] if args else Opaque(), node, fi)
            return NONE
        if name == "set_constraint":
            self.write_comp("atoms", "K", self.value_of(args[0]) if args else ("noconstraint",), "atoms.set_constraint(…)", node, fi)
            return NONE
        if name in ("wrap", "center", "rattle", "translate", "rotate", "euler_rotate", "set_scaled_positions"):
            self.write_comp("atoms", "P", ("new", self.fresh("p")), f"atoms.{name}(…)", node, fi, raw=True)
            return NONE
        return Opaque(f"atoms.{name}()")

    # ------------------------------------------------------------ expressions
    def ev(self, e, env, fi):
        m = getattr(self, "e_" + type(e).__name__, None)
        if m is None:
            return Opaque(type(e).__name__)
        return m(e, env, fi)

    def e_Constant(self, e, env, fi):
        return NONE if e.value is None else e.value

    def e_Name(self, e, env, fi):
        if e.id in env:
            return env[e.id]
        full = self.prog.resolve_dotted(fi.module, e.id)
        ci = self.prog.classes.get(full)
        if ci is not None:
            return ClassVal(ci)
        parts = full.rsplit(".", 1)
        if len(parts) == 2 and parts[0] in self.prog.modules and parts[1] in self.prog.modules[parts[0]].functions:
            return Bound(None, self.prog.modules[parts[0]].functions[parts[1]])
        if e.id in ("True", "False"):
            return e.id == "True"
        return Opaque(full)

    def e_JoinedStr(self, e, env, fi):
        return "<str>"

    def e_Lambda(self, e, env, fi):
        return UserCallable("lambda")

    def e_List(self, e, env, fi):
        return [self.ev(x, env, fi) for x in e.elts]

    def e_Tuple(self, e, env, fi):
        return tuple(self.ev(x, env, fi) for x in e.elts)

    def e_Dict(self, e, env, fi):
        return {}

    def e_ListComp(self, e, env, fi):
        if len(e.generators) == 1:
            g = e.generators[0]
            it = self.ev(g.iter, env, fi)
            if isinstance(it, (list, tuple)):
                out = []
                env2 = dict(env)
                for item in it:
                    self.store(g.target, item, env2, fi, e)
                    if all(self.truth(self.ev(c, env2, fi), f"{fi.name}:comp-if@{e.lineno}") for c in g.ifs):
                        out.append(self.ev(e.elt, env2, fi))
                return out
        return Opaque("listcomp", True)

    e_GeneratorExp = e_ListComp

    def e_SetComp(self, e, env, fi):
        r = self.e_ListComp(e, env, fi)
        if isinstance(r, list):
            try:
                return _PySet(set(r))
            except TypeError:
                pass
        return Opaque("comp", True)

    def e_DictComp(self, e, env, fi):
        if len(e.generators) == 1:
            g = e.generators[0]
            it = self.ev(g.iter, env, fi)
            if isinstance(it, (list, tuple)):
                out = {}
                env2 = dict(env)
                try:
                    for item in it:
                        self.store(g.target, item, env2, fi, e)
                        if all(self.truth(self.ev(c, env2, fi), f"{fi.name}:comp-if@{e.lineno}") for c in g.ifs):
                            out[self.ev(e.key, env2, fi)] = self.ev(e.value, env2, fi)
                    return out
                except TypeError:
                    pass
        return Opaque("dictcomp", True)

    def e_NamedExpr(self, e, env, fi):
        v = self.ev(e.value, env, fi)
        env[e.target.id] = v
        return v

    def e_IfExp(self, e, env, fi):
        return self.ev(e.body if self.cond(e.test, env, fi) else e.orelse, env, fi)

    def e_BoolOp(self, e, env, fi):
        if isinstance(e.op, ast.And):
            v = True
            for s in e.values:
                v = self.ev(s, env, fi)
                if not self.truth(v, f"{fi.name}:and:{norm(s)[:30]}@{s.lineno}"):
                    return v
            return v
        v = False
        for s in e.values:
            v = self.ev(s, env, fi)
            if self.truth(v, f"{fi.name}:or:{norm(s)[:30]}@{s.lineno}"):
                return v
        return v

    def e_UnaryOp(self, e, env, fi):
        if isinstance(e.op, ast.Not):
            return not self.truth(self.ev(e.operand, env, fi), f"{fi.name}:not:{norm(e.operand)[:30]}@{e.lineno}")
        v = self.ev(e.operand, env, fi)
        if isinstance(e.op, ast.USub):
            if isinstance(v, (int, float)):
                return -v
            if isinstance(v, V) and v.term and v.term[0] in ("len", "count"):
                return V((v.term[0], tuple((k, -c) for k, c in v.term[1])))
        return Opaque("unary")

    def e_BinOp(self, e, env, fi):
        a, b = self.ev(e.left, env, fi), self.ev(e.right, env, fi)
        if isinstance(a, (int, float)) and isinstance(b, (int, float)) and not isinstance(a, bool):
            try:
                return {ast.Add: a + b, ast.Sub: a - b, ast.Mult: a * b}.get(type(e.op), Opaque("arith"))
            except Exception:
                return Opaque("arith")
        if isinstance(a, FreshAtoms) and isinstance(e.op, ast.Add):
            return self.atoms_extend_value(a, b)
        if isinstance(e.op, (ast.Add, ast.Sub)):
            # symbolic counters (lengths, particle numbers): linear combinations stay exact
            ca, cb = self.as_count(a), self.as_count(b)
            if ca is not None and cb is not None and (isinstance(a, V) or isinstance(b, V)):
                d = dict(ca)
                sign = 1 if isinstance(e.op, ast.Add) else -1
                for k, c in cb:
                    d[k] = d.get(k, 0) + sign * c
                return V(("count", tuple(sorted(_clean(d).items()))))
        return Opaque("arith")

    def e_Compare(self, e, env, fi):
        left = self.ev(e.left, env, fi)
        if len(e.ops) != 1:
            return Opaque("cmp")
        right = self.ev(e.comparators[0], env, fi)
        op = e.ops[0]
        if isinstance(op, (ast.Is, ast.IsNot)):
            if isinstance(right, NoneV) or isinstance(left, NoneV):
                other = left if isinstance(right, NoneV) else right
                if isinstance(other, Opaque) and not other.nonnull:
                    return Opaque("is-none?")
                r = isinstance(other, NoneV)
                return r if isinstance(op, ast.Is) else not r
            if isinstance(left, ClassVal) and isinstance(right, ClassVal):
                r = left.ci == right.ci
                return r if isinstance(op, ast.Is) else not r
            return Opaque("is?")
        if isinstance(op, (ast.In, ast.NotIn)):
            cont = right.s if isinstance(right, _PySet) else (right if isinstance(right, (list, tuple, dict)) else None)
            if cont is not None:
                try:
                    r = left in cont
                    return r if isinstance(op, ast.In) else not r
                except TypeError:
                    return Opaque("in?")
            return Opaque("in?")
        lc, rc = self.as_count(left), self.as_count(right)
        if lc is not None and rc is not None:
            d = dict(lc)
            for k, c in rc:
                d[k] = d.get(k, 0) - c
            d = _clean(d)
            if not d:
                diff = 0
            elif set(d) == {"1"}:
                diff = d["1"]
            elif (not lc or not rc) and all(c > 0 for c in d.values()) or (not lc or not rc) and all(c < 0 for c in d.values()):
                # a length compared with zero: lengths are non-negative, so only "is it empty?" matters
                form = tuple(sorted((k, abs(c)) for k, c in d.items()))
                nz = self.truth(V(("len", form)), f"{fi.name}:{norm(e)[:40]}@{e.lineno}")
                sign = 1 if all(c > 0 for c in d.values()) else -1
                diff = sign if nz else 0
            else:
                diff = None
            if diff is not None:
                table = {ast.Eq: diff == 0, ast.NotEq: diff != 0, ast.Gt: diff > 0, ast.GtE: diff >= 0, ast.Lt: diff < 0, ast.LtE: diff <= 0}
                for k, r in table.items():
                    if isinstance(op, k):
                        return r
        if isinstance(left, (int, float, str)) and isinstance(right, (int, float, str)) and type(left) is type(right):
            table = {ast.Eq: left == right, ast.NotEq: left != right, ast.Gt: left > right, ast.GtE: left >= right, ast.Lt: left < right, ast.LtE: left <= right}
            for k, r in table.items():
                if isinstance(op, k):
                    return r
        return Opaque("cmp")

    def e_Subscript(self, e, env, fi):
        base = self.ev(e.value, env, fi)
        if isinstance(base, Ref) and base.obj == "atoms" and base.comp is None:
            idx = self.ev(e.slice, env, fi)
            if isinstance(idx, Idx):
                return self.atoms_sub(idx)
            return FreshAtoms(tuple(sorted((c, ("new", self.fresh("s"))) for c in PER_ATOM)))
        if isinstance(base, dict):
            k = self.ev(e.slice, env, fi)
            try:
                if k in base:
                    return base[k]
            except TypeError:
                pass
            return Opaque("dict[...]")
        if isinstance(base, (list, tuple)):
            k = self.ev(e.slice, env, fi)
            if isinstance(k, int) and -len(base) <= k < len(base):
                return base[k]
            return Opaque("seq[...]")
        if isinstance(base, _ArangeLen):
            # np.arange(len(atoms))[-len(x):]  → indices of the last appended segment
            sl = e.slice
            if isinstance(sl, ast.Slice) and sl.upper is None and sl.lower is not None:
                lo = self.ev(sl.lower, env, fi)
                if isinstance(lo, V) and lo.term[0] == "len" and all(c < 0 for _, c in lo.term[1]):
                    want = tuple((k, -c) for k, c in lo.term[1])
                    seg = self._last_segment()
                    if seg is not None:
                        self.log("idx-last-segment", f"{seg} (size {want})", e, fi, {"seg": seg, "size": want})
                        return Idx(("seg:" + seg,))
            return Opaque("arange[...]")
        hk = self.hooks.get("subscript")
        if hk:
            r = hk(self, base, e, env, fi)
            if r is not None:
                return r
        return Opaque("subscript")

    def _last_segment(self):
        t = simp(self.heap["atoms"]["A"])
        if isinstance(t, tuple) and t and t[0] == "ext":
            return t[2]
        return None

    def e_Attribute(self, e, env, fi):
        dn = dotted(e)
        if dn and dn.split(".")[0] not in env:
            full = self.prog.resolve_dotted(fi.module, dn)
            if full in ("numpy.nan", "math.nan"):
                return NAN
        o = self.ev(e.value, env, fi)
        return self.getattr(o, e.attr, e, fi)

    def getattr(self, o, attr, node, fi):
        if isinstance(o, Ref) and o.comp is None:
            name = o.obj
            if name == "atoms":
                if attr == "positions":
                    return Ref("atoms", "P")
                if attr == "cell":
                    return Ref("atoms", "C")
                if attr == "calc":
                    return Ref("calc")
                if attr == "constraints":
                    return Ref("atoms", "K")
                if attr == "arrays":
                    return Opaque("atoms.arrays")
                return _AtomsMethod(o, attr)
            if name == "calc":
                if attr == "results":
                    return V(self.heap["calc"]["R"])  # the dict object: replaced, never mutated in place (validated ASE fact)
                if attr == "atoms":
                    return Ref("calcatoms")
                return Opaque(f"calc.{attr}")
            if name == "calcatoms":
                if attr == "positions":
                    return Ref("calcatoms", "P")
                if attr == "cell":
                    return Ref("calcatoms", "C")
                return Opaque(f"calc.atoms.{attr}")
            if name == "rng":
                return _RngMethod(attr)
            if name == "template":
                if attr in ("positions", "cell"):
                    return Ref("template", attr)
                return _TemplateMethod(attr)
            if name in self.heap:
                slots = self.heap[name]
                if attr in slots:
                    return slots[attr]
                ci = self.cls_of.get(name)
                if ci is not None:
                    if attr == "__class__":
                        return ClassVal(ci)
                    r = self.prog.lookup(ci, attr)
                    if r is not None:
                        owner, val = r
                        if isinstance(val, FuncInfo):
                            if val.kind == "property":
                                return self.call_function(val, [o], {})
                            return Bound(o, val)
                        if isinstance(val, ast.expr):
                            rc = self.prog.resolve_class(owner.module, val)
                            if isinstance(rc, ClassInfo):
                                return ClassVal(rc)
                            return Opaque(f"classattr:{attr}")
                hk = self.hooks.get("missing-slot")
                if hk:
                    r = hk(self, name, attr, node, fi)
                    if r is not None:
                        return r
                return Opaque(f"{name}.{attr}")
        if isinstance(o, Ref) and o.comp is not None:
            if attr == "copy":
                return _CopyOf(V(self.heap[o.obj].get(o.comp)))
            if attr in ("volume", "array", "T", "shape"):
                return Opaque(f"{o.obj}.{o.comp}.{attr}")
            return Opaque(f"{o.obj}.{o.comp}.{attr}")
        if isinstance(o, V):
            if attr == "copy":
                return _CopyOf(o)
            return Opaque(f"value.{attr}")
        if isinstance(o, FreshAtoms):
            if attr == "positions":
                return V(o.get("P") or ("unknown",))
            return _FreshAtomsMethod(o, attr)
        if isinstance(o, _Super):
            ci = self.cls_of[o.obj]
            m = self.prog.lookup_method(ci, attr, after=o.cls)
            if m is None:
                return Opaque(f"super.{attr}")
            return Bound(Ref(o.obj), m)
        if isinstance(o, Record):
            if attr in o.fields:
                return o.fields[attr]
            m = self.prog.lookup_method(o.ci, attr)
            if m is not None:
                if m.kind == "property":
                    return self.call_function(m, [o], {})
                return Bound(o if m.kind != "static" else None, m) if m.kind != "class" else Bound(ClassVal(o.ci), m)
            return Opaque(f"{o.ci.name}.{attr}")
        if isinstance(o, ClassVal):
            m = self.prog.lookup_method(o.ci, attr)
            if m is not None:
                return Bound(o if m.kind == "class" else None, m)
            if attr == "__name__":
                return o.ci.name
            return Opaque(f"{o.ci.name}.{attr}")
        if isinstance(o, Idx):
            return Opaque("idx." + attr)
        if isinstance(o, dict):
            return _DictMethod(o, attr)
        if isinstance(o, list):
            return _ListMethod(o, attr)
        if isinstance(o, _PySet):
            return _SetMethod(o, attr)
        return Opaque(f"?.{attr}")

    def e_Call(self, e, env, fi):
        if isinstance(e.func, ast.Name) and e.func.id not in env:
            from .normalize import _apply_module_partial

            e2 = _apply_module_partial(self.prog, fi, e)  # a module-level functools.partial(np.hstack, …) alias
            if e2 is not e:
                e = e2
        f = e.func
        # super()
        if isinstance(f, ast.Name) and f.id == "super" and not e.args:
            s = env.get("self")
            if not isinstance(s, Ref):
                raise SimUnsupported("super() without tracked self")
            return _Super(s.obj, env.get("__class_cell__"))
        args = []
        for a in e.args:
            if isinstance(a, ast.Starred):
                v = self.ev(a.value, env, fi)
                args.extend(v if isinstance(v, (list, tuple)) else [Opaque("star")])
            else:
                args.append(self.ev(a, env, fi))
        kwargs = {k.arg: self.ev(k.value, env, fi) for k in e.keywords if k.arg}
        if isinstance(f, ast.Name) and f.id not in env:
            r = self.builtin(f.id, args, kwargs, e, env, fi)
            if r is not _NO:
                return r
        dn = dotted(f)
        if dn:
            full = self.prog.resolve_dotted(fi.module, dn)
            r = self.external(full, dn, args, kwargs, e, env, fi)
            if r is not _NO:
                return r
        fv = self.ev(f, env, fi)
        return self.apply(fv, args, kwargs, e, env, fi)

    def apply(self, fv, args, kwargs, e, env, fi):
        if isinstance(fv, Bound):
            hk = self.hooks.get("call")
            if hk:
                r = hk(self, fv, args, kwargs, e, fi)
                if r is not _NO and r is not None:
                    return r
            a = ([fv.recv] if fv.recv is not None else []) + args
            return self.call_function(fv.func, a, kwargs)
        if isinstance(fv, _AtomsMethod):
            return self.atoms_method(fv.recv, fv.name, args, kwargs, e, fi)
        if isinstance(fv, _CopyOf):
            return fv.v
        if isinstance(fv, _RngMethod):
            self.log("rng-draw", fv.name, e, fi)
            if fv.name == "choice" and len(args) == 1 and not kwargs and isinstance(args[0], Opaque):
                # a single label drawn from a candidate set: remember which earlier draws it cannot coincide with
                return LabelTok("rng.choice", True, self.fresh("lab"), args[0].excluded if isinstance(args[0], Cand) else ())
            return Opaque(f"rng.{fv.name}", True)
        if isinstance(fv, _FreshAtomsMethod):
            if fv.name == "copy":
                return fv.recv
            if fv.name == "__len__":
                return V(("len", tuple(sorted(length(fv.recv.get("A")).items()))))
            return Opaque(f"fresh.{fv.name}")
        if isinstance(fv, _TemplateMethod):
            if fv.name in ("copy",):
                return FreshAtoms(tuple(sorted((c, ("template", c)) for c in PER_ATOM)))
            if fv.name.startswith("set_") or fv.name in ("extend", "wrap", "translate", "rotate", "euler_rotate", "center", "rattle", "pop", "append"):
                self.log("template-write", f"exchange_atoms.{fv.name}(…)", e, fi)
                return NONE
            return Opaque(f"template.{fv.name}")
        if isinstance(fv, _ListMethod):
            if fv.name == "append" and args:
                fv.lst.append(args[0])
                return NONE
            if fv.name == "extend" and args and isinstance(args[0], list):
                fv.lst.extend(args[0])
                return NONE
            if fv.name == "copy":
                return list(fv.lst)
            try:
                if fv.name == "clear":
                    fv.lst.clear()
                    return NONE
                if fv.name == "pop":
                    if not fv.lst:
                        raise SimRaise("IndexError: pop from empty list")
                    return fv.lst.pop(*[a for a in args[:1] if isinstance(a, int)])
                if fv.name == "insert" and len(args) == 2 and isinstance(args[0], int):
                    fv.lst.insert(args[0], args[1])
                    return NONE
                if fv.name == "reverse":
                    fv.lst.reverse()
                    return NONE
                if fv.name == "count" and args:
                    return sum(1 for x in fv.lst if x is args[0] or x == args[0])
                if fv.name == "index" and args:
                    for i_, x in enumerate(fv.lst):
                        if x is args[0] or x == args[0]:
                            return i_
                    raise SimRaise("ValueError: not in list")
                if fv.name == "remove" and args:
                    for i_, x in enumerate(fv.lst):
                        if x is args[0] or x == args[0]:
                            del fv.lst[i_]
                            return NONE
                    raise SimRaise("ValueError: not in list")
            except TypeError:
                pass
            # a tracked list changed or queried in a way the model does not follow: no verdict may rest on it
            raise SimUnsupported(f"{fi.qualname}: list method `{fv.name}` on a tracked list is not modelled")
        if isinstance(fv, _SetMethod):
            try:
                if fv.name == "add" and args:
                    fv.st.s.add(args[0])
                    return NONE
                if fv.name == "discard" and args:
                    fv.st.s.discard(args[0])
                    return NONE
                if fv.name == "clear":
                    fv.st.s.clear()
                    return NONE
                if fv.name == "copy":
                    return Opaque("set.copy", True)
            except TypeError:
                pass
            raise SimUnsupported(f"{fi.qualname}: set method `{fv.name}` on a tracked set is not modelled")
        if isinstance(fv, _DictMethod):
            if fv.name == "copy":
                return dict(fv.d)
            if fv.name == "values":
                return list(fv.d.values())
            if fv.name == "items":
                return [(k, v) for k, v in fv.d.items()]
            if fv.name == "keys":
                return list(fv.d.keys())
            if fv.name == "get":
                try:
                    return fv.d.get(args[0], args[1] if len(args) > 1 else NONE)
                except TypeError:
                    return Opaque("dict.get")
            if fv.name == "setdefault" and args:
                try:
                    return fv.d.setdefault(args[0], args[1] if len(args) > 1 else NONE)
                except TypeError:
                    return Opaque("dict.setdefault")
            if fv.name == "pop" and args:
                try:
                    if args[0] in fv.d:
                        return fv.d.pop(args[0])
                    if len(args) > 1:
                        return args[1]
                    raise SimRaise("KeyError")
                except TypeError:
                    return Opaque("dict.pop")
            if fv.name == "update" and len(args) == 1 and isinstance(args[0], dict) and not kwargs:
                fv.d.update(args[0])
                return NONE
            if fv.name == "clear":
                fv.d.clear()
                return NONE
            raise SimUnsupported(f"{fi.qualname}: dict method `{fv.name}` on a tracked dict is not modelled")
        if isinstance(fv, UserCallable):
            self.log("user-call", fv.what, e, fi)
            return Opaque("user:" + fv.what)
        if isinstance(fv, ClassVal):
            rf = record_fields(self.prog, fv.ci)
            hk = self.hooks.get("construct")
            if hk and rf is None:
                r = hk(self, fv.ci, args, kwargs, e, fi)
                if r is not None:
                    return r
            if rf is not None:
                fields = {}
                names = [n for n, _d in rf]
                if len(args) > len(names) or any(k not in names for k in kwargs):
                    raise SimRaise(f"TypeError: unexpected arguments for record {fv.ci.name}")
                for n_, a_ in zip(names, args):
                    fields[n_] = a_
                for k_, v_ in kwargs.items():
                    if k_ in fields:
                        raise SimRaise(f"TypeError: multiple values for {k_}")
                    fields[k_] = v_
                for n_, d_ in rf:
                    if n_ not in fields:
                        if d_ is None:
                            raise SimRaise(f"TypeError: missing field {n_} of {fv.ci.name}")
                        fields[n_] = self.ev(d_, {}, fi)
                return Record(fv.ci, fields)
            return Opaque(f"new {fv.ci.name}")
        if isinstance(fv, Ref) and fv.comp is None and fv.obj in self.cls_of:
            # calling a model object: __call__
            return self.call_method(fv.obj, "__call__", args, kwargs, node=e)
        if isinstance(fv, V) and norm(e.func).endswith(".copy"):
            return fv
        return Opaque("call")

    def builtin(self, name, args, kwargs, e, env, fi):
        if name == "len" and len(args) == 1:
            v = args[0]
            if isinstance(v, Idx):
                return V(("len", idx_len(v)))
            if isinstance(v, Ref) and v.obj == "atoms" and v.comp is None:
                return V(("len", tuple(sorted(length(self.heap["atoms"]["A"]).items()))))
            if isinstance(v, FreshAtoms):
                return V(("len", tuple(sorted(length(v.get("A")).items()))))
            if isinstance(v, Ref) and v.obj == "template":
                return V(("len", (("|tmpl|", 1),)))
            if isinstance(v, (list, tuple, dict, str)):
                return len(v)
            if isinstance(v, V) and v.term and v.term[0] in ("labels",):
                return V(("len", tuple(sorted(length(v.term[1]).items()))))
            return Opaque("len")
        if name == "isinstance" and len(args) == 2:
            v, c = args
            if isinstance(v, Ref) and v.obj in self.cls_of and isinstance(c, ClassVal):
                return c.ci in self.prog.mro(self.cls_of[v.obj])
            return Opaque("isinstance")
        if name == "bool" and len(args) == 1:
            return self.truth(args[0], f"bool@{e.lineno}")
        if name in ("int", "float") and len(args) == 1:
            return args[0]
        if name == "range":
            return _Range(args, False)
        if name == "id" and len(args) == 1:
            v = args[0]
            if isinstance(v, Ref):
                return f"id:{v.obj}:{v.comp}"
            return Opaque("id", True)
        if name in ("set", "frozenset") and not args:
            return _PySet(set())
        if name in ("set", "frozenset", "list", "tuple") and len(args) == 1 and isinstance(args[0], (list, tuple)):
            try:
                return _PySet(set(args[0])) if name in ("set", "frozenset") else list(args[0])
            except TypeError:
                return Opaque(name, True)
        if name in ("any", "all") and len(args) == 1 and isinstance(args[0], (list, tuple)):
            ts = [self.truth(x, f"{name}@{e.lineno}") for x in args[0]]
            return any(ts) if name == "any" else all(ts)
        if name == "sum" and len(args) == 1 and isinstance(args[0], (list, tuple)) and all(isinstance(x, (bool, int)) for x in args[0]):
            return sum(int(x) for x in args[0])
        if name == "getattr" and len(args) in (2, 3) and isinstance(args[1], str):
            # getattr(x, "name") with a name known on this path is the attribute read x.name
            tmp = self.fresh("__ga")
            env2 = dict(env)
            env2[tmp] = args[0]
            node = ast.Attribute(value=ast.Name(id=tmp, ctx=ast.Load()), attr=args[1], ctx=ast.Load())
            ast.copy_location(node, e)
            ast.copy_location(node.value, e)
            try:
                return self.ev(node, env2, fi)
            except SimRaise:
                if len(args) == 3:
                    return args[2]
                raise
        if name in ("sum", "min", "max", "abs", "any", "all", "sorted", "zip", "enumerate", "dict", "list", "tuple", "set", "str", "repr", "getattr", "hasattr", "print", "type", "id", "round"):
            if name == "hasattr":
                return Opaque("hasattr")
            return Opaque(name)
        if name == "warn":
            return NONE
        if name == "cast" and len(args) == 2:
            return args[1]
        if name == "setattr" and len(args) == 3:
            if isinstance(args[0], Ref) and isinstance(args[1], str):
                self.setattr(args[0], args[1], args[2], fi, e)
            return NONE
        return _NO

    def external(self, full, dn, args, kwargs, e, env, fi):
        if full.startswith(self.prog.package):
            mod, _, fn = full.rpartition(".")
            m = self.prog.modules.get(mod)
            if m and fn in m.functions:
                if fn == "reinsert_atoms":
                    self.reinsert(args[1], args[2], e, fi)
                    return NONE
                return self.call_function(m.functions[fn], args, kwargs)
            return _NO
        if full in ("numpy.isnan", "math.isnan") and len(args) == 1:
            v = args[0]
            if isinstance(v, V):
                if v.term == ("nan",):
                    return True
                if v.term and v.term[0] in ("E", "Ekin", "Etot"):
                    return False
            return Opaque("isnan")
        if full in ("numpy.array", "numpy.copy") and len(args) == 1 and set(kwargs) <= {"dtype", "copy", "order"}:
            # np.array(x) / np.copy(x) copy: a snapshot of the component's current version (like x.copy())
            v = args[0]
            if isinstance(v, Ref) and v.comp is not None and v.obj in self.heap:
                return V(self.heap[v.obj].get(v.comp))
            if isinstance(v, V):
                return v
        if full == "numpy.nan":
            return NAN
        if full == "numpy.arange" and len(args) == 1:
            return _ArangeLen(args[0])
        if full == "numpy.append" and len(args) == 2 and not kwargs:
            full, args = "numpy.hstack", [(args[0], args[1])]  # 1-D append is concatenation
        if full in ("numpy.hstack", "numpy.concatenate") and args and not (full == "numpy.concatenate" and kwargs.get("axis") not in (None, 0)):
            parts = args[0]
            if isinstance(parts, (tuple, list)):
                out = []
                ok = True
                for p in parts:
                    if isinstance(p, Idx):
                        out.extend(p.parts)
                    elif isinstance(p, list) and not p:
                        continue
                    else:
                        ok = False
                if ok:
                    return Idx(tuple(out))
                hk = self.hooks.get("hstack")
                if hk:
                    r = hk(self, parts, e, fi)
                    if r is not None:
                        return r
            return Opaque("hstack")
        if full == "numpy.where":
            hk = self.hooks.get("where")
            if hk:
                r = hk(self, args, e, env, fi)
                if r is not None:
                    return r
            return (Idx(("where:" + self.fresh("w"),)),)
        if full == "numpy.array" and args and isinstance(args[0], Idx):
            return args[0]
        if full in ("numpy.unique", "numpy.sort") and args and isinstance(args[0], Idx) and not kwargs:
            return sorted_idx(args[0])  # indices of distinct particles are distinct: unique only sorts
        if full in ("numpy.array", "numpy.asarray") and args and isinstance(args[0], list) and not args[0]:
            return []
        hk = self.hooks.get("external")
        if hk:
            r = hk(self, full, args, kwargs, e, env, fi)
            if r is not None:
                return r
        if full.startswith(("numpy", "math", "scipy", "ase", "warnings", "networkx", "copy")):
            if full == "warnings.warn":
                return NONE
            if full == "copy.deepcopy" and args:
                return args[0]
            return Opaque(full, True)
        return _NO


def _walk_fn(fn):
    from .loader import walk_no_nested

    return walk_no_nested(fn)


class _NOType:
    pass


_NO = _NOType()


class _Return(Exception):
    def __init__(self, value):
        self.value = value


class _Break(Exception):
    pass


class _Continue(Exception):
    pass


class _Prune(Exception):
    """Path beyond the loop bound: dropped (not a verdict)."""


@dataclass
class _AtomsMethod:
    recv: Ref
    name: str


@dataclass
class _FreshAtomsMethod:
    recv: FreshAtoms
    name: str


@dataclass
class _TemplateMethod:
    name: str


@dataclass
class _RngMethod:
    name: str


@dataclass
class _CopyOf:
    v: object


@dataclass
class _DictMethod:
    d: dict
    name: str


@dataclass
class _ListMethod:
    lst: list
    name: str


class _PySet:
    def __init__(self, s):
        self.s = s


@dataclass
class _SetMethod:
    st: _PySet
    name: str


@dataclass
class _Super:
    obj: str
    cls: ClassInfo


@dataclass
class _Range:
    args: list
    exact: bool


@dataclass
class _ArangeLen:
    arg: object
