"""In-place writes through aliases.

`np.asarray(x)`, `x[...]` (basic slicing), `x.T`, `x.reshape(...)`, `x.view()` and a plain `y = x` do not copy: the
result shares storage with `x`.  An augmented assignment (`y *= 2`), a subscript store (`y[i] = v`), an in-place method
(`y.sort()`, `y.fill(0)`) or an `out=y` argument then changes `x` as well — the caller's array, or state the object
holds.  `inplace_writes(fn, roots)` lists such writes for the storage roots given (parameter names, or attribute
chains rooted at names such as `context`)."""

from __future__ import annotations

import ast

from .loader import norm

VIEW_FUNCS = {"np.asarray", "np.asanyarray", "numpy.asarray", "numpy.asanyarray", "np.atleast_1d", "np.atleast_2d", "np.atleast_3d", "np.ravel", "np.squeeze", "np.transpose", "np.reshape",
              "np.diagonal", "np.broadcast_to", "np.swapaxes", "np.moveaxis", "np.expand_dims"}
VIEW_METHODS = {"view", "reshape", "ravel", "squeeze", "transpose", "swapaxes", "diagonal"}
INPLACE_METHODS = {"sort", "fill", "resize", "put", "itemset", "partition", "append", "extend", "insert", "pop", "remove", "clear", "update", "setdefault", "popitem", "reverse"}


def may_alias(e: ast.expr, aliases: set[str], root_names: set[str]) -> bool:
    """can the value of `e` share storage with one of the roots?  `aliases`: locals already known to; `root_names`: names
    whose attribute chains are roots (e.g. {"context"}) — a bare root name itself is in `aliases` when it is a root."""
    if isinstance(e, ast.Name):
        return e.id in aliases
    if isinstance(e, ast.Attribute):
        if e.attr in ("T", "real", "imag", "flat", "array"):
            if may_alias(e.value, aliases, root_names):
                return True
        root = e
        while isinstance(root, ast.Attribute):
            root = root.value
        return isinstance(root, ast.Name) and root.id in root_names
    if isinstance(e, ast.Subscript):
        return may_alias(e.value, aliases, root_names)  # basic slicing gives a view (fancy indexing copies: over-approximated)
    if isinstance(e, ast.Call):
        fn = norm(e.func)
        if fn in VIEW_FUNCS and e.args:
            # np.asarray(x, dtype=float) returns x itself when x already has that dtype
            return may_alias(e.args[0], aliases, root_names)
        if isinstance(e.func, ast.Attribute) and e.func.attr in VIEW_METHODS:
            return may_alias(e.func.value, aliases, root_names)
        return False
    if isinstance(e, ast.IfExp):
        return may_alias(e.body, aliases, root_names) or may_alias(e.orelse, aliases, root_names)
    if isinstance(e, ast.NamedExpr):
        return may_alias(e.value, aliases, root_names)
    return False


ARRAY_ANNOTATION_WORDS = ("Array", "ndarray", "NDArray", "Positions", "Momenta", "Forces", "Displacement", "Masses", "Cell", "Stress", "Sequence", "list", "dict", "MutableMapping")


def array_params(fn: ast.FunctionDef) -> tuple[set[str], set[str]]:
    """(all parameters except self/cls, those whose annotation says they may be a mutable container / array)"""
    allp, arr = set(), set()
    for a in fn.args.posonlyargs + fn.args.args + fn.args.kwonlyargs:
        if a.arg in ("self", "cls"):
            continue
        allp.add(a.arg)
        ann = norm(a.annotation) if a.annotation is not None else ""
        if any(w in ann for w in ARRAY_ANNOTATION_WORDS):
            arr.add(a.arg)
    return allp, arr


def inplace_writes(body: list[ast.stmt], params: set[str] = frozenset(), root_names: set[str] = frozenset(), exempt_roots: set[str] = frozenset(),
                   direct: set[str] | None = None) -> list[tuple[ast.AST, str]]:
    """(node, alias text) for every in-place write that may reach the storage of a parameter in `params` or of an
    attribute chain rooted at a name in `root_names`.  `direct`: the parameters that are arrays / containers by annotation.  Chains rooted at `exempt_roots` (e.g. {"self"}) are the function's own
    business."""
    mod = ast.Module(body=list(body), type_ignores=[])
    params = set(params)
    # `p = deepcopy(p)` / `p = np.array(p)` / `p = p.copy()` as the first thing done with a parameter: from then on the
    # name denotes the function's own copy
    for p in list(params):
        for st in body:
            if not any(isinstance(n, ast.Name) and n.id == p for n in ast.walk(st)):
                continue
            if isinstance(st, ast.Assign) and len(st.targets) == 1 and isinstance(st.targets[0], ast.Name) and st.targets[0].id == p and isinstance(st.value, ast.Call) \
                    and (norm(st.value.func) in ("deepcopy", "copy.deepcopy", "copy", "copy.copy", "np.array", "numpy.array", "np.copy", "list", "dict", "set")
                         or (isinstance(st.value.func, ast.Attribute) and st.value.func.attr == "copy")):
                params.discard(p)
            break
    aliases: set[str] = set(params)
    changed = True
    rounds = 0
    while changed and rounds < 6:
        changed = False
        rounds += 1
        for st in ast.walk(mod):
            if isinstance(st, (ast.Assign, ast.AnnAssign)) and st.value is not None:
                for t in (st.targets if isinstance(st, ast.Assign) else [st.target]):
                    if isinstance(t, ast.Name) and t.id not in aliases and may_alias(st.value, aliases, set(root_names)):
                        aliases.add(t.id)
                        changed = True
    # a parameter that is REBOUND to a fresh value before being written is no longer the caller's object; keep it simple:
    # a name whose every binding is a non-aliasing expression is dropped
    for nm in list(aliases):
        if nm in params:
            continue
        binds = [st.value for st in ast.walk(mod) if isinstance(st, (ast.Assign, ast.AnnAssign)) and st.value is not None
                 and any(isinstance(t, ast.Name) and t.id == nm for t in (st.targets if isinstance(st, ast.Assign) else [st.target]))]
        if binds and not any(may_alias(b, aliases - {nm}, set(root_names)) for b in binds):
            aliases.discard(nm)

    def target_hits(t) -> bool:
        root = t
        while isinstance(root, (ast.Attribute, ast.Subscript)):
            root = root.value
        if isinstance(root, ast.Name) and root.id in exempt_roots:
            return False
        if isinstance(root, ast.Name) and root.id in root_names and root is not t:
            return True
        if isinstance(t, ast.Subscript):
            return may_alias(t.value, aliases, set(root_names))
        # `p *= 2` on a bare parameter is an in-place change only if p is an array (a float is rebound): `direct` names the
        # parameters known to be arrays; locals that became aliases through a view function always are
        return isinstance(t, ast.Name) and t.id in aliases and (direct is None or t.id not in params or t.id in direct)

    out: list[tuple[ast.AST, str]] = []
    for st in ast.walk(mod):
        if isinstance(st, ast.AugAssign) and target_hits(st.target):
            out.append((st, norm(st.target)))
        elif isinstance(st, ast.Assign) and any(not isinstance(t, ast.Name) and target_hits(t) for t in st.targets):
            out.append((st, norm(st.targets[0])))
        elif isinstance(st, ast.Call) and isinstance(st.func, ast.Attribute) and st.func.attr in INPLACE_METHODS and may_alias(st.func.value, aliases, set(root_names)):
            r_ = st.func.value
            while isinstance(r_, (ast.Attribute, ast.Subscript)):
                r_ = r_.value
            if not (isinstance(r_, ast.Name) and r_.id in exempt_roots):
                out.append((st, norm(st.func.value)))
        elif isinstance(st, ast.Call):
            for k in st.keywords:
                if k.arg == "out" and may_alias(k.value, aliases, set(root_names)):
                    out.append((st, norm(k.value)))
    return out
