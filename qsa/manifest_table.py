"""Per-property claim texts for MANIFEST.json (see tools/gen_manifest.py)."""

NOT_APPLICABLE = {
    "C01": "limit statement over arbitrarily long random chains (ensemble averages, Poisson law, uniformity): no sound static argument in reach bounds a stationary distribution; its code-shaped preconditions are decided under C02 (acceptance formulas), C03 (restore on reject), C06 (single generator), C10 (proposal symmetry, rotation unit)",
}

CLAIMS = {
    "C06": {
        "text": "Every random draw in src/quansino is shown (who-may-call + provenance) to come from the one generator built in Driver.__init__ from the user's seed, and a finite case analysis (seed None / 0 / k>0) shows the given seed reaches the bit generator unchanged; global/fresh generators, clock, pid and set-order dependence are excluded package-wide. Universal over seeds and global-generator states because it is a fact about the code's shape, not a sample of runs.",
        "note": "Trusted: numpy Generator(PCG64(seed)) is deterministic; ASE/numpy arithmetic is reproducible. Not decided: 'different seeds give different trajectories'.",
        "technique": "static who-may-call over resolved imports + receiver provenance dataflow + finite case analysis of the seed path",
    },
    "C08": {
        "text": "Table agreement decided for every serializable class discovered by introspection of the parsed package (so classes added later are included): registered under its own name by a module the relevant imports execute (S1), lookup bases admit what writers store (S2), emitted kwargs accepted by the constructor chain (S3), every constructor parameter / tunable / driver setting emitted (S4), emitted value inverts the constructor's arithmetic (S5, sympy normal form), and an import-order simulation for every public module as first import (S6; all ordered pairs in the thorough tier).",
        "note": "Trusted: ASE's JSON encoder round-trips ndarray/Atoms/Cell; Python import semantics as modelled (module-level statements, partially initialised modules, submodule fallback). Callables and user-registered classes are outside. ForceBias/AdaptiveForceBias serialization gaps are listed known findings.",
        "technique": "abstract interpretation of to_dict chains into schemas + constructor-chain resolution + registry/lookup table comparison + import-order simulation",
    },
    "C07": {
        "text": "Structural necessary conditions of restart, each decided for every driver class: the function ASE's encoder executes (obj.todict()) is the most-derived to_dict (alias-vs-override analysis), both ends exist, the file dictionary covers the constructor and the keys from_dict indexes, every context slot is emitted / a handle / per-trial scratch / recomputed before the first step, from_dict restores generator state in place after construction plus attributes, context and move table, and every class name that can occur in the file resolves. Failure of any one makes every restart of the affected configuration wrong or impossible.",
        "note": "Not decided: step-for-step equality of the resumed trajectory (behavioural), JSON number round trip (ASE encoder, trusted; its use of obj.todict() is validated against the installed ASE source on every run). ForceBias/AdaptiveForceBias restart is a listed known finding.",
        "technique": "class-alias/override resolution + abstract interpretation of to_dict/from_dict + slot coverage tables",
    },
    "C15": {
        "text": "Decided on the CFGs of the run loop: the observer guard (locals inlined) is equivalent to the stated schedule on an exhaustively enumerated bounded integer domain; all paths of irun with the loop taken 0/1/2 times have exactly [yield step, increment, observers] per iteration with the bound fixed at entry; the start-up block is shown one-shot by re-evaluating its guard at every exit of every path that ran it (catches zero-length runs); every run/srun/run entry point of every driver class resolved through the MRO exhausts the step generators.",
        "note": "Not decided: byte identity of output files across split runs (follows from O1–O3 together with C06 and C16). Guard equivalence is exhaustive only within interval∈[-7,7], step∈[0,20]; the predicate is piecewise in sign(interval) and step mod |interval|, which this domain covers for those intervals.",
        "technique": "statement CFG path enumeration + dominance + bounded exhaustive predicate equivalence (checker-owned evaluator)",
    },
    "C16": {
        "text": "Typestate analysis of the file-operation sequence of every observer call (all CFG paths; ASE writers summarised and validated against the installed source): flush after the last write, one newline-terminated write per log row/header, append-only trajectory, restart rewrite from offset 0 with truncation, and an exhaustive enumeration of crash points (every prefix of every op sequence) mapped to an abstract file state that must be allowed for that file kind.",
        "note": "Granularity is one file operation (a torn single write counts as 'partial'); OS-level durability (fsync) is not claimed by the property. The non-atomic restart rewrite (two crash points) is a listed known finding.",
        "technique": "typestate over file-operation sequences on CFG paths + exhaustive crash-prefix enumeration",
    },
    "C09": {
        "text": "Schedule shape decided on MonteCarlo.yield_moves/step/add_move: the due filter is equivalent to `step mod interval == 0` on an exhaustively enumerated bounded domain; every CFG path yields exactly once per slot of range(max_cycles) and nothing iff no move is due; forced moves are repeat(due, minimum_count) placed by a choice without replacement sized to the multiset; free slots are a fresh rng.choice over the due list with p = probability/Σprobability (value-numbered through the in-place division); the over-commit guard is equivalent to Σ+new > max_cycles and dominates the table insertion; step() calls the selected move exactly once per yielded name.",
        "note": "Trusted: numpy's choice semantics (distinct elements without replacement; weight-0 elements never drawn). Not decided: selection frequencies; move tables edited behind add_move's back (from_dict, direct attribute edits).",
        "technique": "CFG path enumeration + dataflow slicing/value numbering + bounded exhaustive predicate equivalence",
    },
    "C17": {
        "text": "Bounded-exhaustive decision: the __add__/__mul__/__rmul__ bodies and the __init__ chains that assign composite_move_type are interpreted by a checker-owned interpreter over model objects (instances, composites, class values, generic aliases, metaclass), and EVERY expression tree over + and *n with every parenthesisation up to 4 leaves (quick, ~10^4 trees) / 5 leaves and two multiplications (thorough, ~2·10^5 trees) over five move kinds and three operation kinds is compared with the specification (elements in order with multiplicity; specialised composite iff all leaves of one displacement/exchange kind); invalid multipliers must raise; CompositeMove.__call__ must not short-circuit.",
        "note": "Trusted: typing caches parameterised generic aliases (same parameters, same object) — either way both branches then build the plain composite. The reflected spelling n*x is only checked for classes that define __rmul__ (the property speaks of a*n). Exhaustive within the stated tree bound only.",
        "technique": "finite abstract interpretation of dispatch code over kinds (checker-owned interpreter) + exhaustive bounded tree enumeration",
    },
    "C03": {
        "text": "Path-sensitive effect/typestate analysis over an abstract heap: atoms components (positions, momenta, other per-atom arrays with atom count/order, cell, constraints), calculator cache, context and move slots carry symbolic version terms (with an algebra for insert/delete/re-insert and cell rescaling; aliases of live storage distinguished from copies). quansino's own step loop, move bodies, context save/revert/reset chains and driver overrides are interpreted over it for every discovered driver × move-table scenario (incl. composites built like m*2, a+b, mixed tables); undecidable conditions branch both ways, retry loops unroll 0/1/2 times; every path is explored. After every rejected or failed trial each component must carry its pre-trial version and all bookkeeping/pre-selections must be clean. Universal over histories because it is a per-trial inductive step checked on all abstract paths.",
        "note": "Trusted: ASE setter/getter/delete semantics (table validated against the installed ASE source each run); reinsert_atoms inverts deletion (C19); atoms appended in the current trial are unconstrained. Not decided: bit equality of contents beyond 'restored from a copy of the pre-trial value'; user check_move callables that mutate atoms. Constraint loss on rejected deletion is a listed known finding.",
        "technique": "path-sensitive effect/typestate analysis (abstract heap with version terms, alias vs copy), exhaustive over abstract paths of each scenario",
    },
    "C04": {
        "text": "Same path-sensitive abstract heap as C03, extended with the calculator: calc.results / calc.atoms are components and every energy read is interpreted with ASE's cache rule (hit iff calc.atoms equals the live atoms on positions/cell/numbers, else results replaced and recomputed; validated against the installed ASE source). For every driver × move-table scenario and abstract path, after each accepted/rejected/failed trial: results never attributed to another configuration (also at every cached read), reference energy / remembered results / positions / cell are those of the current configuration, and — Hamiltonian moves apart — exactly one evaluation per trial reaching its criteria, none for a failed one, with a coherent cache afterwards. The per-trial invariants are inductive, so the claim covers all histories.",
        "note": "Trusted: ASE's Calculator.get_property/compare_atoms semantics as summarised (validated each run). Not decided: calculators with hidden internal state (neighbour lists), numbers of force calls inside an integrator. One genuine defect found by this check was repaired (stale results after a vetoed Hamiltonian attempt inside a composite).",
        "technique": "path-sensitive effect/typestate analysis with a calculator-cache model, exhaustive over abstract paths of each scenario",
    },
}
