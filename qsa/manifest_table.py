"""Per-property claim texts for MANIFEST.json (see tools/gen_manifest.py)."""

NOT_APPLICABLE = {'C01': 'limit statement over arbitrarily long random chains (ensemble averages, Poisson law, uniformity): no sound static argument in reach bounds a stationary distribution; its code-shaped '
        'preconditions are decided under C02 (acceptance formulas), C03 (restore on reject), C06 (single generator), C10 (proposal symmetry, rotation unit)'}

CLAIMS = {'C06': {'text': "Every random draw in src/quansino is shown (who-may-call + provenance) to come from the one generator built in Driver.__init__ from the user's seed, and a finite case analysis "
                 '(seed None / 0 / k>0) shows the given seed reaches the bit generator unchanged; global/fresh generators, clock, pid and set-order dependence are excluded package-wide. Universal '
                 "over seeds and global-generator states because it is a fact about the code's shape, not a sample of runs. G4 also treats set algebra on key views and materialised sets as "
                 'hash-ordered iterables. G5: no mutable object created at module or class level is handed out as per-object state (shared default operations, masks, scratch lists): two simulations '
                 'built in one process share nothing but code and constants. G3 also scans every function that accepts a seed: a seed is never truth-tested (0 is a seed). Rule M (shared by every '
                 'check, qsa/memo.py): no history-dependent memo on the trial path (randomness) — a value stored under a guard on its own cache attribute and kept between calls must be keyed on, '
                 'refreshed from, or reset by every writer of, each mutable input it was computed from (ASE Atoms content split into components); an under-keyed cache is reported with the input that '
                 'can change behind it and the public way to change it. A control module with known opaque and transparent memos is analysed on every run.',
         'note': "Trusted: numpy Generator(PCG64(seed)) is deterministic; ASE/numpy arithmetic is reproducible. Not decided: 'different seeds give different trajectories'. Assertions in the analysed "
                 'code are taken to hold (they are dropped from the normal form).',
         'technique': "static who-may-call over resolved imports + receiver provenance dataflow + finite case analysis of the seed path + memo-site freshness analysis over the property's call-graph "
                      'slice (rule M)'},
 'C08': {'text': 'Table agreement decided for every serializable class discovered by introspection of the parsed package (so classes added later are included): registered under its own name by a '
                 'module the relevant imports execute (S1), lookup bases admit what writers store (S2), emitted kwargs accepted by the constructor chain (S3), every constructor parameter / tunable / '
                 "driver setting emitted (S4), emitted value inverts the constructor's arithmetic (S5, sympy normal form), and an import-order simulation for every public module as first import (S6; "
                 "all ordered pairs in the thorough tier). S4 also rejects tunables written only under a condition (`if value != DEFAULT`) unless the class's own constructor chain provably leaves "
                 "the attribute at that constant. S5 live-copy: a serialised attribute must be the one the object's behaviour reads (a second, construction-time copy of a public tunable is "
                 "reported). S5 includes driver settings held in the context: the serialised value must read the slot the setting lives in. S7: the drivers' from_dict works on a deep copy of its "
                 'argument (the rebuilt simulation owns its Atoms object and context values). S8: inside a from_dict an entry of the keyword dictionary is only ever replaced by the component rebuilt '
                 'from it (no clamping / defaulting of stored values). Rule M (shared by every check, qsa/memo.py): no history-dependent memo on serialisation — a value stored under a guard on its '
                 'own cache attribute and kept between calls must be keyed on, refreshed from, or reset by every writer of, each mutable input it was computed from (ASE Atoms content split into '
                 'components); an under-keyed cache is reported with the input that can change behind it and the public way to change it. A control module with known opaque and transparent memos is '
                 'analysed on every run.',
         'note': "Trusted: ASE's JSON encoder round-trips ndarray/Atoms/Cell; Python import semantics as modelled (module-level statements, partially initialised modules, submodule fallback). "
                 'Callables and user-registered classes are outside. ForceBias/AdaptiveForceBias serialization gaps are listed known findings. Assertions in the analysed code are taken to hold (they '
                 'are dropped from the normal form).',
         'technique': 'abstract interpretation of to_dict chains into schemas + constructor-chain resolution + registry/lookup table comparison + import-order simulation + memo-site freshness '
                      "analysis over the property's call-graph slice (rule M)"},
 'C07': {'text': "Structural necessary conditions of restart, each decided for every driver class: the function ASE's encoder executes (obj.todict()) is the most-derived to_dict (alias-vs-override "
                 'analysis), both ends exist, the file dictionary covers the constructor and the keys from_dict indexes, every context slot is emitted / a handle / per-trial scratch / recomputed '
                 'before the first step, from_dict restores generator state in place after construction plus attributes, context and move table, and every class name that can occur in the file '
                 'resolves. Failure of any one makes every restart of the affected configuration wrong or impossible. Rule T6: the restart writer keeps dictionary insertion order (ASE write_json, or '
                 "json.dump(s) with ASE's encoder and no key sorting by default) — the move table is rebuilt in file order and scheduled by position. T7: per-move state that from_dict re-derives "
                 "(unique_labels) is produced at run time only by the function from_dict uses. T4 also requires that the value written under a context slot's key reads that slot and nothing else. "
                 "T8: on the abstract heap, after every trial the calculator's cached results belong to the current configuration (a restarted run starts from an empty cache). T4 also requires that "
                 'the setattr replay loops of every from_dict are not guarded by the truth value of the stored value. T9: every component that can appear in a restart file writes its state '
                 "unconditionally (or under a guard that loses nothing because the reader's default is the guarded value). Rule M (shared by every check, qsa/memo.py): no history-dependent memo on "
                 'the trial path (state that a restart does not rebuild) — a value stored under a guard on its own cache attribute and kept between calls must be keyed on, refreshed from, or reset '
                 'by every writer of, each mutable input it was computed from (ASE Atoms content split into components); an under-keyed cache is reported with the input that can change behind it and '
                 'the public way to change it. A control module with known opaque and transparent memos is analysed on every run. T4 restore-source: the entries a setattr loop replays must come from '
                 "the top-level 'attributes' block of from_dict's argument.",
         'note': 'Not decided: step-for-step equality of the resumed trajectory (behavioural), JSON number round trip (ASE encoder, trusted; its use of obj.todict() is validated against the '
                 'installed ASE source on every run). ForceBias/AdaptiveForceBias restart is a listed known finding. Assertions in the analysed code are taken to hold (they are dropped from the '
                 'normal form).',
         'technique': "class-alias/override resolution + abstract interpretation of to_dict/from_dict + slot coverage tables + memo-site freshness analysis over the property's call-graph slice (rule "
                      'M)'},
 'C15': {'text': 'Decided on the CFGs of the run loop: the observer guard (locals inlined) is equivalent to the stated schedule on an exhaustively enumerated bounded integer domain; all paths of '
                 'irun with the loop taken 0/1/2 times have exactly [yield step, increment, observers] per iteration with the bound fixed at entry; the start-up block is shown one-shot by '
                 're-evaluating its guard at every exit of every path that ran it (catches zero-length runs); every run/srun/run entry point of every driver class resolved through the MRO exhausts '
                 'the step generators. irun delegating to a private generator is spliced; a plain-function irun that validates / fixes the step bound when called and returns the generator (eager '
                 'set-up) is reported under O2. O3: the header is written in the one-shot start-up block and nowhere else, before the step-0 observer call (order from the pre-order of the normal '
                 'form). O3 also covers other writers: an assignment to a flag of the start-up guard outside irun / constructor / from_dict is evaluated over all flag × step-count states a finished '
                 'call can leave, and may not make the guard true again. Rule M (shared by every check, qsa/memo.py): no history-dependent memo on observer scheduling — a value stored under a guard '
                 'on its own cache attribute and kept between calls must be keyed on, refreshed from, or reset by every writer of, each mutable input it was computed from (ASE Atoms content split '
                 'into components); an under-keyed cache is reported with the input that can change behind it and the public way to change it. A control module with known opaque and transparent '
                 "memos is analysed on every run. O1 also substitutes per-run stored filters (sets built in irun and tested in call_observers) by their defining condition, with the run call's start "
                 'and length enumerated.',
         'note': 'Not decided: byte identity of output files across split runs (follows from O1–O3 together with C06 and C16). Guard equivalence is exhaustive only within interval∈[-7,7], '
                 'step∈[0,20]; the predicate is piecewise in sign(interval) and step mod |interval|, which this domain covers for those intervals. Assertions in the analysed code are taken to hold '
                 '(they are dropped from the normal form).',
         'technique': "statement CFG path enumeration + dominance + bounded exhaustive predicate equivalence (checker-owned evaluator) + memo-site freshness analysis over the property's call-graph "
                      'slice (rule M)'},
 'C16': {'text': 'Typestate analysis of the file-operation sequence of every observer call (all CFG paths; ASE writers summarised and validated against the installed source): flush after the last '
                 'write, one newline-terminated write per log row/header, append-only trajectory, restart rewrite from offset 0 with truncation, and an exhaustive enumeration of crash points (every '
                 "prefix of every op sequence) mapped to an abstract file state that must be allowed for that file kind. W6: an observer's call writes no module- or class-level mutable object (no "
                 'scratch state shared between loggers). Rule M (shared by every check, qsa/memo.py): no history-dependent memo on observer output — a value stored under a guard on its own cache '
                 'attribute and kept between calls must be keyed on, refreshed from, or reset by every writer of, each mutable input it was computed from (ASE Atoms content split into components); '
                 'an under-keyed cache is reported with the input that can change behind it and the public way to change it. A control module with known opaque and transparent memos is analysed on '
                 "every run. W7: a path-backed output file is opened once, by the observer's constructor; any other store of a path-like value into an observer's `file` goes through the setter, "
                 "which opens with the original mode ('w' truncates completed output).",
         'note': "Granularity is one file operation (a torn single write counts as 'partial'); OS-level durability (fsync) is not claimed by the property. The non-atomic restart rewrite (two crash "
                 'points) is a listed known finding. Assertions in the analysed code are taken to hold (they are dropped from the normal form).',
         'technique': "typestate over file-operation sequences on CFG paths + exhaustive crash-prefix enumeration + memo-site freshness analysis over the property's call-graph slice (rule M)"},
 'C09': {'text': 'Schedule shape decided on MonteCarlo.yield_moves/step/add_move: the due filter is equivalent to `step mod interval == 0` on an exhaustively enumerated bounded domain; every CFG '
                 'path yields exactly once per slot of range(max_cycles) and nothing iff no move is due; forced moves are repeat(due, minimum_count) placed by a choice without replacement sized to '
                 'the multiset; free slots are a fresh rng.choice over the due list with p = probability/Σprobability (value-numbered through the in-place division); the over-commit guard is '
                 'equivalent to Σ+new > max_cycles and dominates the table insertion; step() calls the selected move exactly once per yielded name. M5: the over-commitment test sums the minimum '
                 "counts of ALL stored moves (public scheduler helpers are seen through). M1 accepts an explicit error before the slot loop only under 'more forced moves than cycles', where the slot "
                 'draw itself would fail. Rule M (shared by every check, qsa/memo.py): no history-dependent memo on move scheduling — a value stored under a guard on its own cache attribute and kept '
                 'between calls must be keyed on, refreshed from, or reset by every writer of, each mutable input it was computed from (ASE Atoms content split into components); an under-keyed cache '
                 'is reported with the input that can change behind it and the public way to change it. A control module with known opaque and transparent memos is analysed on every run.',
         'note': "Trusted: numpy's choice semantics (distinct elements without replacement; weight-0 elements never drawn). Not decided: selection frequencies; move tables edited behind add_move's "
                 'back (from_dict, direct attribute edits). Assertions in the analysed code are taken to hold (they are dropped from the normal form).',
         'technique': "CFG path enumeration + dataflow slicing/value numbering + bounded exhaustive predicate equivalence + memo-site freshness analysis over the property's call-graph slice (rule "
                      'M)'},
 'C17': {'text': 'Bounded-exhaustive decision: the __add__/__mul__/__rmul__ bodies and the __init__ chains that assign composite_move_type are interpreted by a checker-owned interpreter over model '
                 'objects (instances, composites, class values, generic aliases, metaclass), and EVERY expression tree over + and *n with every parenthesisation up to 4 leaves (quick, ~10^4 trees) / '
                 '5 leaves and two multiplications (thorough, ~2·10^5 trees) over five move kinds and three operation kinds is compared with the specification (elements in order with multiplicity; '
                 'specialised composite iff all leaves of one displacement/exchange kind); invalid multipliers must raise; CompositeMove.__call__ must not short-circuit. A4 is decided by running '
                 'CompositeMove.__call__ in the checker-owned interpreter on stand-in children for every result vector up to three children (calls in order, once each, with the context; result = '
                 'any). A1 also demands that every operand (leaf or intermediate result) still holds the elements it held when it was used (in-place list += is modelled). The empty composite is one '
                 "of the operand kinds (operations family). The specialised composite of an element class is taken from the constructor's composite_move_type declaration as well as from the "
                 'subscripted base class. Rule M (shared by every check, qsa/memo.py): no history-dependent memo on composite dispatch — a value stored under a guard on its own cache attribute and '
                 'kept between calls must be keyed on, refreshed from, or reset by every writer of, each mutable input it was computed from (ASE Atoms content split into components); an under-keyed '
                 'cache is reported with the input that can change behind it and the public way to change it. A control module with known opaque and transparent memos is analysed on every run. A4 is '
                 'evaluated on a composite built by its own constructor and again on a second and third call after the element list was changed in place (replace, append).',
         'note': 'Trusted: typing caches parameterised generic aliases (same parameters, same object) — either way both branches then build the plain composite. The reflected spelling n*x is only '
                 'checked for classes that define __rmul__ (the property speaks of a*n). Exhaustive within the stated tree bound only. Assertions in the analysed code are taken to hold (they are '
                 'dropped from the normal form).',
         'technique': "finite abstract interpretation of dispatch code over kinds (checker-owned interpreter) + exhaustive bounded tree enumeration + memo-site freshness analysis over the property's "
                      'call-graph slice (rule M)'},
 'C03': {'text': 'Path-sensitive effect/typestate analysis over an abstract heap: atoms components (positions, momenta, other per-atom arrays with atom count/order, cell, constraints), calculator '
                 'cache, context and move slots carry symbolic version terms (with an algebra for insert/delete/re-insert and cell rescaling; aliases of live storage distinguished from copies). '
                 "quansino's own step loop, move bodies, context save/revert/reset chains and driver overrides are interpreted over it for every discovered driver × move-table scenario (incl. "
                 'composites built like m*2, a+b, mixed tables); undecidable conditions branch both ways, retry loops unroll 0/1/2 times; every path is explored. After every rejected or failed trial '
                 'each component must carry its pre-trial version and all bookkeeping/pre-selections must be clean. Universal over histories because it is a per-trial inductive step checked on all '
                 'abstract paths. Rule M (shared by every check, qsa/memo.py): no history-dependent memo on proposal and undo — a value stored under a guard on its own cache attribute and kept '
                 'between calls must be keyed on, refreshed from, or reset by every writer of, each mutable input it was computed from (ASE Atoms content split into components); an under-keyed cache '
                 'is reported with the input that can change behind it and the public way to change it. A control module with known opaque and transparent memos is analysed on every run. U6: every '
                 "snapshot slot the context's revert_state chain writes back into the atoms is re-taken from the live atoms on the run-start path (validate_simulation chain) of every driver using "
                 "that context — the abstract heap's assumption that a run starts with fresh snapshots.",
         'note': 'Trusted: ASE setter/getter/delete semantics (table validated against the installed ASE source each run); reinsert_atoms inverts deletion (C19); atoms appended in the current trial '
                 "are unconstrained. Not decided: bit equality of contents beyond 'restored from a copy of the pre-trial value'; user check_move callables that mutate atoms. Constraint loss on "
                 'rejected deletion is a listed known finding. Assertions in the analysed code are taken to hold (they are dropped from the normal form).',
         'technique': 'path-sensitive effect/typestate analysis (abstract heap with version terms, alias vs copy), exhaustive over abstract paths of each scenario + memo-site freshness analysis over '
                      "the property's call-graph slice (rule M)"},
 'C04': {'text': "Same path-sensitive abstract heap as C03, extended with the calculator: calc.results / calc.atoms are components and every energy read is interpreted with ASE's cache rule (hit iff "
                 'calc.atoms equals the live atoms on positions/cell/numbers, else results replaced and recomputed; validated against the installed ASE source). For every driver × move-table '
                 'scenario and abstract path, after each accepted/rejected/failed trial: results never attributed to another configuration (also at every cached read), reference energy / remembered '
                 'results / positions / cell are those of the current configuration, and — Hamiltonian moves apart — exactly one evaluation per trial reaching its criteria, none for a failed one, '
                 'with a coherent cache afterwards. The per-trial invariants are inductive, so the claim covers all histories. Rule E5 models calculators with per-atom internal state (neighbour '
                 "lists): one more heap component records the atom set of the calculator's last real calculation, rebuilt only when ASE reports a `numbers` change (validated on the installed EMT and "
                 'LennardJones sources); whenever calc.atoms carries the live atom set that component must agree. Rule M (shared by every check, qsa/memo.py): no history-dependent memo on energy '
                 'bookkeeping — a value stored under a guard on its own cache attribute and kept between calls must be keyed on, refreshed from, or reset by every writer of, each mutable input it '
                 'was computed from (ASE Atoms content split into components); an under-keyed cache is reported with the input that can change behind it and the public way to change it. A control '
                 'module with known opaque and transparent memos is analysed on every run.',
         'note': "Trusted: ASE's Calculator.get_property/compare_atoms semantics as summarised (validated each run). Not decided: calculators with hidden internal state (neighbour lists), numbers of "
                 'force calls inside an integrator. One genuine defect found by this check was repaired (stale results after a vetoed Hamiltonian attempt inside a composite). The calculator left '
                 'unusable by a rejected insertion/deletion under GrandCanonical (EMT/LJ neighbour lists; confirmed on the real code) is a listed known finding, one entry per scenario. Assertions in '
                 'the analysed code are taken to hold (they are dropped from the normal form).',
         'technique': "path-sensitive effect/typestate analysis with a calculator-cache model, exhaustive over abstract paths of each scenario + memo-site freshness analysis over the property's "
                      'call-graph slice (rule M)'},
 'C05': {'text': 'On the abstract heap of C03/C04, for every grand-canonical scenario (one or several label-bearing moves, composites built like m*2 — the same object twice —, a+b, one object under '
                 "two names): labels are symbolic per-atom arrays whose length (a linear form over insertion-segment sizes) must equal the atoms' after every accepted/rejected/failed trial on every "
                 'abstract path; the particle counter is a symbolic count that must change by inserted minus deleted particles exactly on acceptance; the template is alias-tracked and never written; '
                 'one label assignment per inserted particle. default_label is decided by finite case analysis (None/0/negative/positive). Per-trial facts are inductive and so cover all histories. '
                 'Rule B6: labels and the unique-label cache from which fresh labels are picked are written by set_labels only (who-may-write, private helpers of set_labels included). Label draws '
                 'are tokens with known distinctness (np.setdiff1d(all, taken)); np.unique over draws explores the coincidence case. Rule M (shared by every check, qsa/memo.py): no history-dependent '
                 'memo on grand-canonical bookkeeping — a value stored under a guard on its own cache attribute and kept between calls must be keyed on, refreshed from, or reset by every writer of, '
                 'each mutable input it was computed from (ASE Atoms content split into components); an under-keyed cache is reported with the input that can change behind it and the public way to '
                 'change it. A control module with known opaque and transparent memos is analysed on every run.',
         'note': 'Not decided: plain CompositeMoves of several exchange moves deleting sequentially (index invalidation), cross-level sharing of one move object between the table and a composite. '
                 'Composite insertion giving several particles one label is a listed known finding. Assertions in the analysed code are taken to hold (they are dropped from the normal form).',
         'technique': 'path-sensitive effect/typestate analysis with symbolic lengths/counts + finite case analysis + who-may-write on labels/unique_labels + memo-site freshness analysis over the '
                      "property's call-graph slice (rule M)"},
 'C02': {'text': "Each criterion's evaluate() is value-numbered (grand-canonical loops unrolled for particle_delta = ±1, and ±2, ±3 in the thorough tier) into a sympy expression over dataflow "
                 'sources and ln A(implemented) is decided equal to the textbook ln A(reference) by symbolic normal form; a difference is only reported with a numeric witness point of the two '
                 'formulas. Matrices are explicit 3×3 symbol matrices with numpy broadcasting semantics (so `S − P` ≠ `S − P·𝟙`). Further rules: every math.exp argument is bounded above (clamps '
                 'recognised and shown decision-neutral), the decision is the strict `u < A` with one draw from context.rng, parameters are read from the context at evaluation time and driver '
                 'property pairs forward to the slot they read. Universal over temperatures, energies, volumes, N, μ, stresses because it is an identity of closed forms. Rule N adds a who-may-write '
                 "check on the particle number the insertion/deletion rule reads: it is only ever advanced by the trial's particle_delta. The kinetic-energy reference of the Hamiltonian test (rule "
                 'H) is decided on the abstract heap: when the integrator starts, the stored K0 is that of the momenta then present, on every path of the trial. Rule E: on the abstract heap the '
                 'energy E_old read by every formula is, at the start of the first trial and after every accepted / rejected / failed trial, the energy of the configuration the next trial starts '
                 'from (a NaN or stale baseline is reported with the path). Public and static helpers of the criteria are seen through unless they keep state on the criterion. Rule W: evaluate() '
                 'never writes to the context and never changes in place an array that may share storage with a context attribute (views through np.asarray / slices / .T are followed). Determinants '
                 'of the cell matrices are treated as signed volumes (a left-handed cell is legal). Rule T: the default-criteria tables are resolved per driver × shipped move (through ** spreads and '
                 "the move's MRO); a trial that draws momenta and integrates is judged by default by a criterion whose exponent has the kinetic-energy term, and no other trial is. Rule M (shared by "
                 'every check, qsa/memo.py): no history-dependent memo on the acceptance rule — a value stored under a guard on its own cache attribute and kept between calls must be keyed on, '
                 'refreshed from, or reset by every writer of, each mutable input it was computed from (ASE Atoms content split into components); an under-keyed cache is reported with the input that '
                 'can change behind it and the public way to change it. A control module with known opaque and transparent memos is analysed on every run.',
         'note': 'Decides identity over the reals, not floating-point rounding near A = 1. The strain tensor is opaque except that it must vanish for an undeformed cell. For the grand-canonical '
                 'clamp (exponent ≤ 700 before a finite prefactor multiplies it) decision-neutrality assumes the prefactor is a normal double (≥ 1e-300). Unrecognised source expressions end as '
                 'analysis-error, not as a verdict. Assertions in the analysed code are taken to hold (they are dropped from the normal form).',
         'technique': 'value numbering of straight-line code to sympy normal forms (formula identity) + shape-kind and upper-bound abstract interpretation + who-may-write on the particle counter + '
                      "memo-site freshness analysis over the property's call-graph slice (rule M)"},
 'C13': {'text': 'ForceBias.step / calculate_gamma / get_zeta / calculate_trial_probability are value-numbered into sympy expressions over named sources and compared by normal form with the '
                 'reference closed forms: zeta ~ uniform(−1,1) on every definition and displacement = zeta·delta·(min M/M)^p applied unchanged through momenta/positions (hence the bound), gamma = '
                 'clip(F·delta/(2kT), ±g) with g ≤ ln(DBL_MAX), the trial probability equals the Bal–Neyts expressions for both signs of zeta with a constant in (0,1] where the denominator vanishes; '
                 "the CFG of step() (rejection loop taken 0/1/2 times) shows exactly one position update, after the loop, masked re-draws only and the exit condition 'all accepted'. Attributes "
                 'cached from other attributes or constructor parameters (derived-attribute resolver) are substituted by their definition and carry freshness obligations: every writer of a source '
                 'refreshes the cache, and a cache computed once in the constructor from a re-assignable public attribute is reported. Cached scaling factors are resolved through their definition '
                 '(also through expression methods) with freshness obligations for every writer of a source attribute. Rule A counts completed steps: a path that raises before any position write is '
                 'an explicit refusal, not an advance. Rule M (shared by every check, qsa/memo.py): no history-dependent memo on the force-bias step — a value stored under a guard on its own cache '
                 'attribute and kept between calls must be keyed on, refreshed from, or reset by every writer of, each mutable input it was computed from (ASE Atoms content split into components); '
                 'an under-keyed cache is reported with the input that can change behind it and the public way to change it. A control module with known opaque and transparent memos is analysed on '
                 'every run. B bypass: an attribute the step reads that the caller may supply (update_masses) is the only place its default source may be read; another method computing something the '
                 'step reads from that source itself is reported.',
         'note': 'Trusted: the rejection-sampling lemma (sampled law and termination with probability 1 follow from the density being in (0,1]). Differences are reported only with a numeric witness '
                 'point of the two formulas; unrecognised sources end as analysis-error. Assertions in the analysed code are taken to hold (they are dropped from the normal form).',
         'technique': 'value numbering to sympy normal forms + CFG path enumeration + derived-attribute (cache) resolution with freshness obligations + memo-site freshness analysis over the '
                      "property's call-graph slice (rule M)"},
 'C18': {'text': 'Every update function found in AdaptiveForceBias.update_functions is translated to u(v, ref) and decided symbolically: u(0)=1, u(ref)=1/2 (inverse-function folding), lim u=0, '
                 'non-increasing in v by an abstract monotonicity domain (sums, sign-definite products, increasing elementary functions) cross-checked on a grid of the derivative formula; delta is '
                 'value-numbered to min+(max−min)·u (so delta ∈ [min,max] with the stated anchor values); fallbacks return reference_variance only for missing committee data; step() adapts delta '
                 'before the inherited step on every path. Update functions are read through caches (derived-attribute resolver) and module constants; a slope cached at construction from '
                 'reference_variance is reported as stale-able. R6: structural sign analysis shows that every scheme returns a non-negative variation coefficient (the update functions are maps of '
                 '[0, ∞) only). R7: update functions and schemes never change an argument in place (directly or through np.asarray / a view). R8: no method of the force-bias drivers changes in place '
                 'a local that may be the stored delta itself (bound to self.delta or to a zero-argument helper that can return it uncopied). Rule M (shared by every check, qsa/memo.py): no '
                 'history-dependent memo on the adaptive step length — a value stored under a guard on its own cache attribute and kept between calls must be keyed on, refreshed from, or reset by '
                 'every writer of, each mutable input it was computed from (ASE Atoms content split into components); an under-keyed cache is reported with the input that can change behind it and '
                 'the public way to change it. A control module with known opaque and transparent memos is analysed on every run.',
         'note': 'Decided over the reals; floating-point saturation of tanh/exp is not claimed. Assertions in the analysed code are taken to hold (they are dropped from the normal form).',
         'technique': 'sympy normal forms, limits and a structural monotonicity domain + dominance on the CFG + derived-attribute (cache) resolution with freshness obligations + memo-site freshness '
                      "analysis over the property's call-graph slice (rule M)"},
 'C14': {'text': "The shipped integrator's loop body is value-numbered with a stateful summary of the Atoms API (positions/momenta as expressions, forces as an uninterpreted function of the current "
                 'positions) and shown equal, by normal form, to the velocity-Verlet map applied once and twice (the latter fixes the force reuse between iterations) and, in the constrained branch, '
                 'to the variant whose second kick starts from the constrained displacement. The Maxwell–Boltzmann refresh is shown to be standard_normal from context.rng times sqrt(m·kB·T) (forced: '
                 'times sqrt(T_target/T_actual)). On the abstract heap, on every path, the kinetic energy stored for the acceptance test is that of the freshly drawn momenta present when integration '
                 'starts. MB[forced] decides the kinetic temperature of the momenta LEFT on the atoms (EK quadratic, constraint map linear and idempotent); a value returned by the refresh and '
                 'recorded by a caller must be EK of those momenta. Rule M (shared by every check, qsa/memo.py): no history-dependent memo on Hamiltonian proposals — a value stored under a guard on '
                 'its own cache attribute and kept between calls must be keyed on, refreshed from, or reset by every writer of, each mutable input it was computed from (ASE Atoms content split into '
                 'components); an under-keyed cache is reported with the input that can change behind it and the public way to change it. A control module with known opaque and transparent memos is '
                 'analysed on every run. MB: 3N and the number of degrees of freedom are distinct symbols.',
         'note': "Reversibility and the O(dt²) energy error are the textbook theorem about this scheme (trusted), not measured. Not decided: 'up to rounding' clauses, statistics of the drawn "
                 'momenta. Differences are reported with a witness under a concrete test force F(y)=sin y + y²/3. Assertions in the analysed code are taken to hold (they are dropped from the normal '
                 'form).',
         'technique': "value numbering with a stateful API summary to sympy normal forms + path-sensitive abstract-heap ordering check + memo-site freshness analysis over the property's call-graph "
                      'slice (rule M)'},
 'C10': {'text': "Each shipped operation's calculate() is value-numbered with every generator draw turned into a symbol carrying its (low, high) range: Box components are single uniform(−s, s) "
                 "draws; Ball/Sphere rows have squared norm r²/s² under sin²+cos²=1 with cosθ ~ U(−1,1), φ over one full period; Translation is U(0,1)³@cell minus the group's centroid; Rotation "
                 "rotates a copy of the group about its centre of mass and returns the difference for the same index set, with angles in the unit of ASE's degree-valued euler_rotate (validated "
                 'against the installed ASE source) over a full period; deformation generators are symmetric by construction with symmetric uniform entries, traceless for Shape, scalar for '
                 'Isotropic, blended as G∘mask + 𝟙∘(¬mask); the composite is the axis-0 sum over one call per child. G6: every operation owns its parameters (no shared module-level default mask). G4 '
                 'includes a finite case analysis of the mask handling: only `mask is None` selects the default mask. G3 accepts the centroid written as Σ rows / number of rows; dividing by the '
                 'number of index entries is accepted only if every producer of context._moving_indices hands over integer indices, never a boolean mask (two-site rule; the producer is named). Rule '
                 'M (shared by every check, qsa/memo.py): no history-dependent memo on proposal operations — a value stored under a guard on its own cache attribute and kept between calls must be '
                 'keyed on, refreshed from, or reset by every writer of, each mutable input it was computed from (ASE Atoms content split into components); an under-keyed cache is reported with the '
                 'input that can change behind it and the public way to change it. A control module with known opaque and transparent memos is analysed on every run. G3 accepts scratch copies kept '
                 "on the operation (slice copy of the moving group, cell matrix) whose every stored value has the required form; their freshness is rule M's.",
         'note': "Trusted lemmas: the (cosθ, φ) sampler is uniform on the sphere and symmetric under d→−d; expm of a symmetric matrix is SPD with inverse expm(−T); det expm(T) = exp(tr T); ASE's "
                 "euler_rotate about 'COM' keeps the centre of mass. Not decided: uniformity in distribution, volume preservation to rounding, symmetry under a non-default mask. Assertions in the "
                 'analysed code are taken to hold (they are dropped from the normal form).',
         'technique': "value numbering to sympy normal forms with range-carrying draw symbols + unit/shape rules validated against the ASE source + memo-site freshness analysis over the property's "
                      'call-graph slice (rule M)'},
 'C11': {'text': 'Dataflow and CFG rules on the displacement moves: the array handed to set_positions is sliced back to (live positions) + a fresh zero array of shape (len(atoms),3) whose single '
                 'store is at the moving indices with one operation result; moving indices are where(labels == chosen); the chosen label is drawn from unique_labels, whose only writer (who-may-write '
                 'scan over the package) filters labels ≥ 0 (predicate compared on a bounded integer domain); the no-eligible-particle branch returns register_failure() before any write; the '
                 'composite resets its list, excludes labels displaced earlier in the call, registers exactly one outcome per child on every CFG path and reports the count of non-None entries. D1 '
                 'also accepts a reused translation buffer when an exit typestate shows it all-zero on every exit; D6: every +/* combination of displacement moves builds the specialised composite '
                 "(C17's interpreter). Rule M (shared by every check, qsa/memo.py): no history-dependent memo on displacement moves — a value stored under a guard on its own cache attribute and kept "
                 'between calls must be keyed on, refreshed from, or reset by every writer of, each mutable input it was computed from (ASE Atoms content split into components); an under-keyed cache '
                 'is reported with the input that can change behind it and the public way to change it. A control module with known opaque and transparent memos is analysed on every run.',
         'note': 'Not decided: constraints that move other atoms (excepted by the statement itself), vetoes by user check_move. Rules read the normalised form (private helpers inlined, guards '
                 "structured); a rewrite outside the normaliser's reach ends as analysis-error or a reported deviation with the offending statement. Assertions in the analysed code are taken to hold "
                 '(they are dropped from the normal form).',
         'technique': 'normalised form (helper inlining) + row-scatter tracking of the translation array + who-may-write scan + exhaustive evaluation of the selection/registration control skeleton '
                      "over its finite case space + abstract-heap retry rule + memo-site freshness analysis over the property's call-graph slice (rule M)"},
 'C12': {'text': 'Routing clause decided on the abstract heap: every write to positions/momenta/cell of the live atoms on every abstract path of every driver × move scenario is either a '
                 'constraint-aware proposal (ASE set_* with apply_constraint defaulted or bound to a flag whose tracked value is True by default) or an exact restore of an earlier version; a '
                 "package-wide who-may-write scan forbids raw in-place writes and literal apply_constraint=False on non-snapshots. Verlet's constrained branch (second kick from the constrained "
                 'displacement) and the force-bias momentum round trip (displacement read back after set_momenta, constraint-aware position update) are decided by value numbering / statement order. '
                 'K3 decides the position update symbolically on the normalised ForceBias.step: positions = (positions before) + get_momenta()/masses read back after set_momenta. K1 includes ASE '
                 'Atoms methods that write positions without adjust_positions (the list is computed from the installed ASE source: translate, rotate, euler_rotate, center, wrap, '
                 'set_scaled_positions): none may be called on live atoms. Rule M (shared by every check, qsa/memo.py): no history-dependent memo on constraint handling — a value stored under a '
                 'guard on its own cache attribute and kept between calls must be keyed on, refreshed from, or reset by every writer of, each mutable input it was computed from (ASE Atoms content '
                 'split into components); an under-keyed cache is reported with the input that can change behind it and the public way to change it. A control module with known opaque and '
                 'transparent memos is analysed on every run.',
         'note': "Not decided: the FixRot clause (zero angular momentum to rounding involves an eigendecomposition — a numerical identity outside this family) and that ASE's own constraints do what "
                 "they promise (trusted; the setters' constraint handling is validated against the installed ASE source each run). Assertions in the analysed code are taken to hold (they are dropped "
                 "from the normal form). Not decided (stated): the FixRot clause 'zero total angular momentum to rounding' is a numerical identity; an independently produced breaking change of that "
                 'clause (seeded_out_of_reach/C12-7) is not reported.',
         'technique': "effect classification on the abstract heap (who-may-write) + package-wide writer scan + value numbering + memo-site freshness analysis over the property's call-graph slice "
                      '(rule M)'},
 'C19': {'text': 'reinsert_atoms is checked for the scatter/gather shape that makes it the inverse of deletion for any index set in any order (every existing array iterated; length '
                 'len(atoms)+len(new); trailing shape of the source; dtype of the existing array; kept rows under the complement mask and re-inserted rows under the indices, in order; arrays only '
                 'carried by the re-inserted atoms added). search_molecules is decided by finite case analysis of the default-array handling (None / one-element / multi-element array: never '
                 'truth-tested, and the result starts from the supplied data), the inclusive size filter is compared with the reference predicate on a bounded domain, labels come from '
                 'enumerate(connected components) of the neighbour-list connectivity without self-interaction. R2 additionally requires a connectivity matrix that is fresh per call (no cached '
                 'helper) and accepts the direct graph idiom; the row tracker knows both mask idioms (ones/False, zeros/True). R3: search_molecules writes into none of its arguments (the supplied '
                 "default array in particular); reinsert_atoms only into `atoms`. R1 follows undecidable branches of the per-array loop on both arms: every arm's store must be a rebuilt array with "
                 'the index scatter. Rule M (shared by every check, qsa/memo.py): no history-dependent memo on deletion and reinsertion — a value stored under a guard on its own cache attribute and '
                 'kept between calls must be keyed on, refreshed from, or reset by every writer of, each mutable input it was computed from (ASE Atoms content split into components); an under-keyed '
                 'cache is reported with the input that can change behind it and the public way to change it. A control module with known opaque and transparent memos is analysed on every run. R1 '
                 'carries sorting permutations: `idx[argsort(idx)]` / `np.sort(idx)` as selector requires every row source to carry the same permutation (and vice versa). R2 rewrite-after-loop: no '
                 "store into the result outside the component loop may select entries by the result's own values.",
         'note': "Trusted: numpy mask/index scatter semantics, ASE's neighbour list, networkx's connected components. Rules read the normalised form of the two functions; a rewrite outside the "
                 "normaliser's reach ends as analysis-error (exit 2), not as a violation. Assertions in the analysed code are taken to hold (they are dropped from the normal form).",
         'technique': 'normalised form (helper inlining) + flow-sensitive row-scatter tracking (fresh array, complement mask) + finite case analysis + exhaustive evaluation of the size window on a '
                      "bounded domain + memo-site freshness analysis over the property's call-graph slice (rule M)"},
 'C20': {'text': 'Who-may-access analysis with the protocol surface read from protocols.py on every run: in quansino.mc.* and quansino.utils.moves the expressions denoting user move/criteria objects '
                 "(MoveStorage.move/.criteria on storage-typed expressions, add_move's parameters, locals bound to them) are collected by dataflow and every attribute taken on them must be a member "
                 'of Move ∪ Serializable resp. Criteria ∪ Serializable; isinstance tests on the move are confined to the default-criteria lookup; MonteCarlo.step routes a truthy result to '
                 'criteria.evaluate then save/revert and records a falsy one as None without evaluating; every driver whose context can change atom count / cell notifies stored moves on its accept '
                 'path; the simulation dictionary reaches move.to_dict()/criteria.to_dict(). P1 tracks collections of user objects (generators of storage.move, Iterable[MoveType] parameters, '
                 "accumulating lists, the generic composite's children): value comparison / membership on them calls __eq__, which is outside the protocol. P1 also reports truth-value / length tests "
                 '(`if x`, `not x`, bool(x), len(x)) on objects given to add_move or held by the move table: they call __bool__/__len__, which a conforming object may define. P5: the scheduler rules '
                 "M1–M3 of C09 (every due move is offered, forced slots are placed) are part of 'where it is executed'. P3 guard: the comparison that decides on_cell_changed must see the pre-trial "
                 "saved cell: a slot read after the chain call that refreshes it is reported, an alias taken before is accepted only if the context's save_state chain rebinds the slot rather than "
                 "refreshing it in place. Rule M (shared by every check, qsa/memo.py): no history-dependent memo on the driver's use of moves and criteria — a value stored under a guard on its own "
                 'cache attribute and kept between calls must be keyed on, refreshed from, or reset by every writer of, each mutable input it was computed from (ASE Atoms content split into '
                 'components); an under-keyed cache is reported with the input that can change behind it and the public way to change it. A control module with known opaque and transparent memos is '
                 'analysed on every run. P3 fan-out: on the notification path only identity de-duplication may skip a stored move.',
         'note': "Decides the drivers' own code; behaviour inside user objects is out of scope. The pyright compile-fail witness pair sketched in DESIGN.md was not built (the structural rules decide "
                 'the clauses directly). Assertions in the analysed code are taken to hold (they are dropped from the normal form).',
         'technique': "who-may-access (R-OWNER) dataflow over user-object expressions + exhaustive evaluation of the step loop's routing skeleton over (moved, verdict) + memo-site freshness analysis "
                      "over the property's call-graph slice (rule M)"}}
