"""Loader / resolver: parse src/quansino into a resolved program model.

Everything here is computed from source text with ``ast``; quansino is never
imported.  The model: modules with import bindings (tagged TYPE_CHECKING /
function-local), classes with resolved bases and a statically computed C3 MRO,
methods (properties, setters, static/class methods, overloads skipped),
class-level assignments (aliases such as ``todict = to_dict``), ``__slots__``.
"""

from __future__ import annotations

import ast
import os
from dataclasses import dataclass, field
from typing import Iterator


class AnalysisError(Exception):
    """The analyser cannot form a verdict (maps to exit 2, never exit 1)."""


@dataclass
class Binding:
    local: str
    target: str  # dotted name: module or module.attr
    lineno: int
    type_checking: bool = False
    function_local: bool = False
    is_from: bool = False
    from_module: str | None = None
    attr: str | None = None


@dataclass
class FuncInfo:
    name: str
    node: ast.FunctionDef
    module: "Module"
    cls: "ClassInfo | None" = None
    kind: str = "function"  # function|method|static|class|property|setter

    @property
    def qualname(self) -> str:
        if self.cls is not None:
            suffix = ".setter" if self.kind == "setter" else ""
            return f"{self.cls.name}.{self.name}{suffix}"
        return f"{self.module.name}.{self.name}"

    @property
    def where(self) -> str:
        return f"{self.module.relpath}:{self.node.lineno}"

    def params(self) -> list[str]:
        a = self.node.args
        names = [x.arg for x in a.posonlyargs + a.args]
        return names

    def docstring(self) -> str | None:
        return ast.get_docstring(self.node)

    def body(self) -> list[ast.stmt]:
        """Body without the docstring."""
        b = self.node.body
        if (
            b
            and isinstance(b[0], ast.Expr)
            and isinstance(b[0].value, ast.Constant)
            and isinstance(b[0].value.value, str)
        ):
            return b[1:]
        return b

    def is_trivial(self) -> bool:
        """Body is only docstring / ``...`` / pass / raise NotImplementedError."""
        for s in self.body():
            if isinstance(s, ast.Pass):
                continue
            if isinstance(s, ast.Expr) and isinstance(s.value, ast.Constant):
                continue
            if isinstance(s, ast.Raise) and s.exc is not None:
                e = s.exc
                if isinstance(e, ast.Call):
                    e = e.func
                if isinstance(e, ast.Name) and e.id == "NotImplementedError":
                    continue
            return False
        return True


@dataclass
class ClassInfo:
    name: str
    node: ast.ClassDef
    module: "Module"
    base_exprs: list[ast.expr] = field(default_factory=list)
    bases: list[str] = field(default_factory=list)  # dotted; internal ones are keys of Program.classes
    methods: dict[str, FuncInfo] = field(default_factory=dict)
    setters: dict[str, FuncInfo] = field(default_factory=dict)
    class_attrs: dict[str, ast.expr] = field(default_factory=dict)
    class_attr_nodes: dict[str, ast.stmt] = field(default_factory=dict)
    class_annotations: dict[str, ast.expr] = field(default_factory=dict)
    decorators: list[ast.expr] = field(default_factory=list)

    @property
    def qualname(self) -> str:
        return f"{self.module.name}.{self.name}"

    @property
    def where(self) -> str:
        return f"{self.module.relpath}:{self.node.lineno}"

    def docstring(self) -> str | None:
        return ast.get_docstring(self.node)

    def slots(self) -> list[str] | None:
        v = self.class_attrs.get("__slots__")
        if v is None:
            return None
        if isinstance(v, (ast.Tuple, ast.List)):
            out = []
            for e in v.elts:
                if isinstance(e, ast.Constant) and isinstance(e.value, str):
                    out.append(e.value)
            return out
        if isinstance(v, ast.Constant) and isinstance(v.value, str):
            return [v.value]
        return []

    def __hash__(self) -> int:
        return hash(self.qualname)

    def __eq__(self, other) -> bool:
        return isinstance(other, ClassInfo) and other.qualname == self.qualname

    def __repr__(self) -> str:
        return f"<class {self.qualname}>"


@dataclass
class Module:
    name: str
    path: str
    relpath: str
    tree: ast.Module
    source: str
    is_pkg: bool
    bindings: dict[str, Binding] = field(default_factory=dict)
    all_bindings: list[Binding] = field(default_factory=list)
    classes: dict[str, ClassInfo] = field(default_factory=dict)
    functions: dict[str, FuncInfo] = field(default_factory=dict)
    assigns: dict[str, ast.expr] = field(default_factory=dict)

    def line(self, lineno: int) -> str:
        return self.source.splitlines()[lineno - 1]


_GENERIC_BASES = {"Generic", "Protocol", "ABC", "object"}


def _strip_subscript(e: ast.expr) -> ast.expr:
    while isinstance(e, ast.Subscript):
        e = e.value
    return e


def dotted(e: ast.expr) -> str | None:
    """``a.b.c`` → 'a.b.c' for Name/Attribute chains, else None."""
    parts = []
    while isinstance(e, ast.Attribute):
        parts.append(e.attr)
        e = e.value
    if isinstance(e, ast.Name):
        parts.append(e.id)
        return ".".join(reversed(parts))
    return None


def norm(node: ast.AST) -> str:
    """Normalised statement/expression text (position independent)."""
    try:
        return " ".join(ast.unparse(node).split())
    except Exception:  # pragma: no cover
        return ast.dump(node)


def is_type_checking_test(test: ast.expr) -> bool:
    d = dotted(test)
    return d in ("TYPE_CHECKING", "typing.TYPE_CHECKING")


class Program:
    """Resolved model of the quansino package at ``repo``."""

    def __init__(self, repo: str, package: str = "quansino", srcdir: str = "src"):
        self.repo = os.path.abspath(repo)
        self.package = package
        self.pkg_root = os.path.join(self.repo, srcdir, package)
        if not os.path.isdir(self.pkg_root):
            raise AnalysisError(f"package root not found: {self.pkg_root}")
        self.modules: dict[str, Module] = {}
        self.classes: dict[str, ClassInfo] = {}
        self._mro_cache: dict[str, list] = {}
        self._load()
        self._index()

    # ------------------------------------------------------------------ loading
    def _load(self) -> None:
        for dirpath, dirnames, filenames in os.walk(self.pkg_root):
            dirnames[:] = sorted(d for d in dirnames if d != "__pycache__")
            for fn in sorted(filenames):
                if not fn.endswith(".py"):
                    continue
                path = os.path.join(dirpath, fn)
                rel = os.path.relpath(path, self.pkg_root)
                parts = rel[:-3].split(os.sep)
                is_pkg = parts[-1] == "__init__"
                if is_pkg:
                    parts = parts[:-1]
                name = ".".join([self.package, *parts]) if parts else self.package
                with open(path, encoding="utf-8") as fh:
                    src = fh.read()
                try:
                    tree = ast.parse(src, filename=path)
                except SyntaxError as exc:
                    raise AnalysisError(f"cannot parse {path}: {exc}") from exc
                self.modules[name] = Module(
                    name=name,
                    path=path,
                    relpath=os.path.relpath(path, self.repo),
                    tree=tree,
                    source=src,
                    is_pkg=is_pkg,
                )

    def _abs_module(self, mod: Module, level: int, module: str | None) -> str:
        if level == 0:
            return module or ""
        pkg = mod.name if mod.is_pkg else mod.name.rsplit(".", 1)[0]
        for _ in range(level - 1):
            pkg = pkg.rsplit(".", 1)[0]
        return f"{pkg}.{module}" if module else pkg

    def _collect_imports(self, mod: Module) -> None:
        def visit(body, tc: bool, local: bool):
            for st in body:
                if isinstance(st, ast.Import):
                    for a in st.names:
                        local_name = a.asname or a.name.split(".")[0]
                        target = a.name if a.asname else a.name.split(".")[0]
                        b = Binding(local_name, target, st.lineno, tc, local)
                        mod.all_bindings.append(b)
                        if not local:
                            mod.bindings[local_name] = b
                elif isinstance(st, ast.ImportFrom):
                    base = self._abs_module(mod, st.level, st.module)
                    for a in st.names:
                        local_name = a.asname or a.name
                        b = Binding(
                            local_name,
                            f"{base}.{a.name}",
                            st.lineno,
                            tc,
                            local,
                            True,
                            base,
                            a.name,
                        )
                        mod.all_bindings.append(b)
                        if not local:
                            mod.bindings[local_name] = b
                elif isinstance(st, ast.If):
                    is_tc = is_type_checking_test(st.test)
                    visit(st.body, tc or is_tc, local)
                    visit(st.orelse, tc, local)
                elif isinstance(st, (ast.Try,)):
                    visit(st.body, tc, local)
                    for h in st.handlers:
                        visit(h.body, tc, local)
                    visit(st.orelse, tc, local)
                    visit(st.finalbody, tc, local)
                elif isinstance(st, (ast.With, ast.For, ast.While)):
                    visit(st.body, tc, local)
                elif isinstance(st, (ast.FunctionDef, ast.AsyncFunctionDef)):
                    visit(st.body, tc, True)
                elif isinstance(st, ast.ClassDef):
                    visit(st.body, tc, local)

        visit(mod.tree.body, False, False)

    @staticmethod
    def _func_kind(fn: ast.FunctionDef) -> str | None:
        kind = "method"
        for d in fn.decorator_list:
            dn = dotted(d) or ""
            if dn in ("overload", "typing.overload"):
                return None
            if dn == "staticmethod":
                kind = "static"
            elif dn == "classmethod":
                kind = "class"
            elif dn == "property":
                kind = "property"
            elif dn.endswith(".setter"):
                kind = "setter"
        return kind

    def _index(self) -> None:
        for mod in self.modules.values():
            self._collect_imports(mod)
            for st in mod.tree.body:
                if isinstance(st, ast.ClassDef):
                    ci = ClassInfo(st.name, st, mod, list(st.bases), decorators=list(st.decorator_list))
                    for s in st.body:
                        if isinstance(s, ast.FunctionDef):
                            kind = self._func_kind(s)
                            if kind is None:
                                continue
                            fi = FuncInfo(s.name, s, mod, ci, kind)
                            if kind == "setter":
                                ci.setters[s.name] = fi
                            else:
                                ci.methods[s.name] = fi
                        elif isinstance(s, ast.Assign):
                            for t in s.targets:
                                if isinstance(t, ast.Name):
                                    ci.class_attrs[t.id] = s.value
                                    ci.class_attr_nodes[t.id] = s
                        elif isinstance(s, ast.AnnAssign) and isinstance(s.target, ast.Name):
                            ci.class_annotations[s.target.id] = s.annotation
                            if s.value is not None:
                                ci.class_attrs[s.target.id] = s.value
                                ci.class_attr_nodes[s.target.id] = s
                    mod.classes[st.name] = ci
                    self.classes[ci.qualname] = ci
                elif isinstance(st, ast.FunctionDef):
                    mod.functions[st.name] = FuncInfo(st.name, st, mod, None, "function")
                elif isinstance(st, ast.Assign):
                    for t in st.targets:
                        if isinstance(t, ast.Name):
                            mod.assigns[t.id] = st.value
                elif isinstance(st, ast.AnnAssign) and isinstance(st.target, ast.Name) and st.value is not None:
                    mod.assigns[st.target.id] = st.value
        self._desugar_property_factories()
        # resolve bases
        for ci in self.classes.values():
            for be in ci.base_exprs:
                core = _strip_subscript(be)
                d = dotted(core)
                if d is None:
                    continue
                ci.bases.append(self.resolve_dotted(ci.module, d))

    def _desugar_property_factories(self) -> None:
        """`attr = make_property("slot", …)` in a class body, where make_property is a module-level function of the
        package that returns `property(getter, setter, …)` with `getter(self)` = `getattr(<self-expr>, name)` and
        `setter(self, value)` = `setattr(<self-expr>, name, value)`, is the hand-written pair
        `@property def attr(self): return <self-expr>.slot` / `@attr.setter def attr(self, value): <self-expr>.slot = value`.
        The pair is synthesised so that every rule that reads properties sees it."""
        factories: dict[str, tuple[str, ast.expr, bool]] = {}
        for mod in self.modules.values():
            for fn in mod.functions.values():
                params = [a.arg for a in fn.node.args.args]
                if not params:
                    continue
                inner = {d.name: d for d in fn.node.body if isinstance(d, ast.FunctionDef)}
                rets = [x for x in fn.node.body if isinstance(x, ast.Return)]
                if len(rets) != 1 or not (isinstance(rets[0].value, ast.Call) and norm(rets[0].value.func) == "property" and rets[0].value.args):
                    continue
                pa = rets[0].value.args
                g = inner.get(pa[0].id) if isinstance(pa[0], ast.Name) else None
                st = inner.get(pa[1].id) if len(pa) > 1 and isinstance(pa[1], ast.Name) else None
                if g is None:
                    continue
                gb = [x for x in g.body if not (isinstance(x, ast.Expr) and isinstance(x.value, ast.Constant))]
                if not (len(gb) == 1 and isinstance(gb[0], ast.Return) and isinstance(gb[0].value, ast.Call) and norm(gb[0].value.func) == "getattr"
                        and len(gb[0].value.args) == 2 and isinstance(gb[0].value.args[1], ast.Name) and gb[0].value.args[1].id in params):
                    continue
                base = gb[0].value.args[0]
                pname = gb[0].value.args[1].id
                has_setter = False
                if st is not None:
                    sb = [x for x in st.body if not (isinstance(x, ast.Expr) and isinstance(x.value, ast.Constant))]
                    has_setter = (len(sb) == 1 and isinstance(sb[0], ast.Expr) and isinstance(sb[0].value, ast.Call) and norm(sb[0].value.func) == "setattr"
                                  and len(sb[0].value.args) == 3 and norm(sb[0].value.args[0]) == norm(base) and norm(sb[0].value.args[1]) == pname)
                    if not has_setter:
                        continue
                factories[f"{mod.name}.{fn.name}"] = (pname, base, has_setter, params)
        if not factories:
            return
        for ci in self.classes.values():
            for attr, val in list(ci.class_attrs.items()):
                if not (isinstance(val, ast.Call) and dotted(val.func)):
                    continue
                full = self.resolve_dotted(ci.module, dotted(val.func))
                if full not in factories:
                    continue
                pname, base, has_setter, params = factories[full]
                i = params.index(pname)
                slot_e = val.args[i] if i < len(val.args) else next((k.value for k in val.keywords if k.arg == pname), None)
                if not (isinstance(slot_e, ast.Constant) and isinstance(slot_e.value, str)):
                    continue
                slot = slot_e.value
                src = f"def {attr}(self):\n    return {ast.unparse(base)}.{slot}\n"
                gnode = ast.parse(src).body[0]
                gnode.decorator_list = [ast.Name(id="property", ctx=ast.Load())]
                for n_ in ast.walk(gnode):
                    if hasattr(n_, "lineno"):
                        n_.lineno = val.lineno
                        n_.end_lineno = getattr(val, "end_lineno", val.lineno)
                ci.methods[attr] = FuncInfo(attr, gnode, ci.module, ci, "property")
                if has_setter:
                    ssrc = f"def {attr}(self, value):\n    {ast.unparse(base)}.{slot} = value\n"
                    snode = ast.parse(ssrc).body[0]
                    for n_ in ast.walk(snode):
                        if hasattr(n_, "lineno"):
                            n_.lineno = val.lineno
                            n_.end_lineno = getattr(val, "end_lineno", val.lineno)
                    ci.setters[attr] = FuncInfo(attr, snode, ci.module, ci, "setter")
                ci.class_attrs.pop(attr, None)

    # --------------------------------------------------------------- resolution
    def resolve_dotted(self, mod: Module, name: str, _depth: int = 0) -> str:
        """Resolve a dotted name used in ``mod`` to a canonical dotted target.

        Follows import bindings and re-exports through package ``__init__``s.
        Returns a key of ``self.classes`` / a 'module.func' when internal, else
        the external dotted path (e.g. 'numpy.random.PCG64').
        """
        if _depth > 10:
            return name
        head, _, rest = name.partition(".")
        if head in mod.classes:
            base = f"{mod.name}.{head}"
        elif head in mod.functions:
            base = f"{mod.name}.{head}"
        elif head in mod.bindings:
            base = self.canonical(mod.bindings[head].target, _depth + 1)
        else:
            for b in mod.all_bindings:  # function-local import
                if b.local == head:
                    base = self.canonical(b.target, _depth + 1)
                    break
            else:
                base = head
        return f"{base}.{rest}" if rest else base

    def canonical(self, target: str, _depth: int = 0) -> str:
        """Canonicalise 'pkg.mod.attr' by following re-exports inside quansino."""
        if _depth > 10 or not target.startswith(self.package):
            return target
        if target in self.modules or target in self.classes:
            return target
        modname, _, attr = target.rpartition(".")
        m = self.modules.get(modname)
        if m is None:
            # maybe class attribute access 'pkg.mod.Class.attr'
            return target
        if attr in m.classes or attr in m.functions:
            return target
        if attr in m.bindings:
            return self.canonical(m.bindings[attr].target, _depth + 1)
        return target

    def resolve_class(self, mod: Module, expr: ast.expr) -> "ClassInfo | str | None":
        core = _strip_subscript(expr)
        d = dotted(core)
        if d is None:
            return None
        full = self.resolve_dotted(mod, d)
        return self.classes.get(full, full)

    def cls(self, short: str) -> ClassInfo:
        """Find an internal class by short name (unique) — anchors."""
        hits = [c for c in self.classes.values() if c.name == short]
        if len(hits) != 1:
            raise AnalysisError(f"anchor class {short!r}: expected exactly one definition, found {len(hits)}")
        return hits[0]

    def has_cls(self, short: str) -> bool:
        return sum(1 for c in self.classes.values() if c.name == short) == 1

    def module(self, name: str) -> Module:
        m = self.modules.get(name)
        if m is None:
            raise AnalysisError(f"anchor module {name!r} not found")
        return m

    def func(self, modname: str, fname: str) -> FuncInfo:
        m = self.module(modname)
        f = m.functions.get(fname)
        if f is None:
            raise AnalysisError(f"anchor function {modname}.{fname} not found")
        return f

    # --------------------------------------------------------------------- MRO
    def mro(self, ci: ClassInfo) -> list:
        """C3 linearisation; external bases appear as dotted strings."""
        key = ci.qualname
        if key in self._mro_cache:
            return self._mro_cache[key]

        def lin(c) -> list:
            if isinstance(c, str):
                return [c]
            seqs = []
            bases = []
            for b in c.bases:
                short = b.rsplit(".", 1)[-1]
                if short in _GENERIC_BASES:
                    continue
                bases.append(self.classes.get(b, b))
            for b in bases:
                seqs.append(list(lin(b)))
            seqs.append(list(bases))
            out = [c]
            while True:
                seqs = [s for s in seqs if s]
                if not seqs:
                    return out
                for s in seqs:
                    cand = s[0]
                    if not any(cand in t[1:] for t in seqs):
                        break
                else:
                    raise AnalysisError(f"inconsistent MRO for {c}")
                out.append(cand)
                for s in seqs:
                    if s and s[0] == cand:
                        del s[0]

        res = lin(ci)
        self._mro_cache[key] = res
        return res

    def mro_classes(self, ci: ClassInfo) -> list[ClassInfo]:
        return [c for c in self.mro(ci) if isinstance(c, ClassInfo)]

    def is_subclass(self, ci: ClassInfo, other: "ClassInfo | str") -> bool:
        if isinstance(other, str):
            return any((c == other) or (isinstance(c, ClassInfo) and c.name == other) for c in self.mro(ci))
        return other in self.mro(ci)

    def subclasses(self, ci: ClassInfo, strict: bool = False) -> list[ClassInfo]:
        out = []
        for c in self.classes.values():
            if ci in self.mro(c) and not (strict and c == ci):
                out.append(c)
        return sorted(out, key=lambda c: c.qualname)

    def lookup(self, ci: ClassInfo, name: str, after: ClassInfo | None = None):
        """Resolve attribute ``name`` along the MRO of ``ci``.

        Returns (owner, FuncInfo) for methods/properties, (owner, ast.expr) for
        class-level assignments; None when only external bases could provide it.
        ``after`` implements ``super()`` from within class ``after``.
        """
        m = self.mro(ci)
        start = 0
        if after is not None:
            if after not in m:
                raise AnalysisError(f"super(): {after} not in MRO of {ci}")
            start = m.index(after) + 1
        for c in m[start:]:
            if isinstance(c, str):
                continue
            if name in c.methods:
                return c, c.methods[name]
            if name in c.class_attrs:
                return c, c.class_attrs[name]
        return None

    def lookup_method(self, ci: ClassInfo, name: str, after: ClassInfo | None = None) -> FuncInfo | None:
        """Like lookup, but follows class-level aliases (``todict = to_dict``) to the
        function object they bind: the alias refers to the function *in the
        defining class's namespace*, not to the most-derived override."""
        r = self.lookup(ci, name, after)
        if r is None:
            return None
        owner, val = r
        seen = 0
        while not isinstance(val, FuncInfo):
            if isinstance(val, ast.Name) and seen < 5:
                # alias evaluated in the class body of ``owner``
                if val.id in owner.methods:
                    return owner.methods[val.id]
                if val.id in owner.class_attrs:
                    val = owner.class_attrs[val.id]
                    seen += 1
                    continue
            return None
        return val

    def lookup_setter(self, ci: ClassInfo, name: str) -> FuncInfo | None:
        for c in self.mro_classes(ci):
            if name in c.setters:
                return c.setters[name]
            if name in c.methods and c.methods[name].kind != "property":
                return None
        return None

    def super_chain(self, ci: ClassInfo, name: str) -> list[FuncInfo]:
        """All definitions of ``name`` along the MRO of ``ci`` in MRO order."""
        out = []
        for c in self.mro_classes(ci):
            if name in c.methods:
                out.append(c.methods[name])
        return out

    def iter_functions(self) -> Iterator[FuncInfo]:
        for m in self.modules.values():
            yield from m.functions.values()
            for c in m.classes.values():
                yield from c.methods.values()
                yield from c.setters.values()

    def classvar(self, ci: ClassInfo, name: str):
        """Class-level assignment visible on ci (first along MRO) → (owner, expr)."""
        for c in self.mro_classes(ci):
            if name in c.class_attrs:
                return c, c.class_attrs[name]
        return None

    def classvar_class(self, ci: ClassInfo, name: str) -> ClassInfo | None:
        r = self.classvar(ci, name)
        if r is None:
            return None
        owner, expr = r
        res = self.resolve_class(owner.module, expr)
        return res if isinstance(res, ClassInfo) else None


def walk_no_nested(node: ast.AST) -> Iterator[ast.AST]:
    """ast.walk that does not descend into nested function/class/lambda bodies."""
    stack = [node]
    first = True
    while stack:
        n = stack.pop()
        if not first and isinstance(n, (ast.FunctionDef, ast.AsyncFunctionDef, ast.ClassDef, ast.Lambda)):
            continue
        first = False
        yield n
        stack.extend(reversed(list(ast.iter_child_nodes(n))))


def calls_in(node: ast.AST) -> list[ast.Call]:
    return [n for n in walk_no_nested(node) if isinstance(n, ast.Call)]


def record_fields(prog, ci):
    """Field names (declaration order) and defaults of a record class, or None if `ci` is not one."""
    is_nt = any(norm(b).split(".")[-1] == "NamedTuple" for b in ci.node.bases)
    is_dc = any(norm(d.func if isinstance(d, ast.Call) else d).split(".")[-1] == "dataclass" for d in ci.node.decorator_list)
    if not (is_nt or is_dc) or "__init__" in ci.methods or "__new__" in ci.methods:
        return None
    out = []
    for c in reversed(prog.mro_classes(ci)):
        for st in c.node.body:
            if isinstance(st, ast.AnnAssign) and isinstance(st.target, ast.Name) and "ClassVar" not in norm(st.annotation):
                out = [x for x in out if x[0] != st.target.id] + [(st.target.id, st.value)]
    return out


_MATCH_COUNTER = [0]


def lower_match(st: ast.Match):
    """`match subject: case P if g: …` as the equivalent if/elif chain, for the pattern kinds the package could plausibly
    use: class patterns without sub-patterns (isinstance), literal values, None/True/False, `|` alternatives, the wildcard,
    a bare capture, `P as name`.  Returns the replacement statements, or None when a pattern is outside that fragment."""
    import copy

    pre = []
    subj = st.subject
    if not isinstance(subj, ast.Name):
        _MATCH_COUNTER[0] += 1
        tmp = f"_m{_MATCH_COUNTER[0]}_subject"
        pre.append(ast.Assign(targets=[ast.Name(id=tmp, ctx=ast.Store())], value=subj, lineno=st.lineno, col_offset=0))
        subj = ast.Name(id=tmp, ctx=ast.Load())

    def S():
        return copy.deepcopy(subj)

    def cond(p):
        """(test expr | None for always-true, [names captured]) or raises ValueError"""
        if isinstance(p, ast.MatchClass):
            if p.patterns or p.kwd_patterns:
                raise ValueError("class pattern with sub-patterns")
            return ast.Call(func=ast.Name(id="isinstance", ctx=ast.Load()), args=[S(), p.cls], keywords=[]), []
        if isinstance(p, ast.MatchValue):
            return ast.Compare(left=S(), ops=[ast.Eq()], comparators=[p.value]), []
        if isinstance(p, ast.MatchSingleton):
            return ast.Compare(left=S(), ops=[ast.Is()], comparators=[ast.Constant(value=p.value)]), []
        if isinstance(p, ast.MatchAs):
            if p.pattern is None:
                return None, ([p.name] if p.name else [])
            c, names = cond(p.pattern)
            return c, names + ([p.name] if p.name else [])
        if isinstance(p, ast.MatchOr):
            cs = []
            for q in p.patterns:
                c, names = cond(q)
                if names:
                    raise ValueError("captures inside alternatives")
                if c is None:
                    return None, []
                cs.append(c)
            return ast.BoolOp(op=ast.Or(), values=cs), []
        raise ValueError(type(p).__name__)

    chain = None
    tail = None
    try:
        for case in st.cases:
            c, names = cond(case.pattern)
            binds = [ast.Assign(targets=[ast.Name(id=n, ctx=ast.Store())], value=S(), lineno=st.lineno, col_offset=0) for n in names]
            if case.guard is not None:
                if any(isinstance(x, ast.Name) and x.id in names for x in ast.walk(case.guard)):
                    raise ValueError("guard reads a capture")
                c = case.guard if c is None else ast.BoolOp(op=ast.And(), values=[c, case.guard])
            body = binds + list(case.body)
            if c is None:
                # irrefutable: the else-branch of everything before it
                if tail is None:
                    chain = body if chain is None else chain
                    if chain is body:
                        return [ast.fix_missing_locations(x) for x in pre + body]
                else:
                    tail.orelse = body
                tail = "closed"
                break
            node = ast.If(test=c, body=body or [ast.Pass()], orelse=[], lineno=case.pattern.lineno if hasattr(case.pattern, "lineno") else st.lineno, col_offset=0)
            if chain is None:
                chain = [node]
            else:
                tail.orelse = [node]
            tail = node
    except ValueError:
        return None
    out = pre + (chain or [])
    for x in out:
        ast.fix_missing_locations(x)
    return out
