"""Mutable objects shared between instances.

A module-level (or class-level) mutable object — an instance of a package class, a numpy array, a list / dict / set —
is one object for the whole process.  Handing it out as the *default* of per-object state (`self.mask = _FULL_MASK`,
`return DEFAULT_OPERATION` from a `default_*` factory, a mutable default argument that is stored) couples every
object built that way: tuning one (`move.operation.step_size = …`, `op.mask[2, :] = False`) changes the others,
including those of a simulation built later in the same process.  The analysis lists such escapes; registries and
constant tables that are only read are not reported."""

from __future__ import annotations

import ast
from dataclasses import dataclass

from .loader import FuncInfo, Program, dotted, norm, walk_no_nested

_ARRAY_MAKERS = {"ones", "zeros", "full", "empty", "array", "asarray", "eye", "identity", "arange", "linspace", "ones_like", "zeros_like", "full_like", "diag"}
_COPIERS = {"copy", "deepcopy", "np.array", "numpy.array", "np.copy", "list", "dict", "set", "tuple", "frozenset"}


@dataclass
class SharedEscape:
    name: str  # the shared object (module-level name, or Class.attr)
    kind: str  # "instance of X" | "numpy array" | "list" …
    defined: str  # file:line
    how: str  # "stored in self.mask" | "returned by DisplacementMove.default_operation" | …
    where: str  # file:line of the escape
    func: str  # qualified name of the escaping function


def _mutable_kind(prog: Program, module, e: ast.expr) -> str | None:
    if isinstance(e, (ast.List, ast.ListComp)):
        return "list"
    if isinstance(e, (ast.Dict, ast.DictComp)):
        return "dict"
    if isinstance(e, (ast.Set, ast.SetComp)):
        return "set"
    if isinstance(e, ast.Call):
        fn = norm(e.func)
        if fn in ("list", "dict", "set", "bytearray", "collections.deque", "deque", "defaultdict", "collections.defaultdict", "OrderedDict"):
            return fn
        if fn.split(".")[0] in ("np", "numpy") and fn.split(".")[-1] in _ARRAY_MAKERS:
            return "numpy array"
        d = dotted(e.func)
        if d:
            ci = prog.classes.get(prog.resolve_dotted(module, d))
            if ci is not None:
                frozen = any(isinstance(dec, ast.Call) and norm(dec.func).split(".")[-1] == "dataclass" and any(k.arg == "frozen" and isinstance(k.value, ast.Constant) and k.value.value is True for k in dec.keywords)
                             for dec in ci.node.decorator_list)
                is_nt = any(norm(b).split(".")[-1] == "NamedTuple" for b in ci.node.bases)
                if not frozen and not is_nt:
                    return f"instance of {ci.name}"
    return None


def _refs(e: ast.expr, names: set[str]) -> list[str]:
    """shared names that `e` evaluates to (directly, or through either arm of a conditional expression / `or`)"""
    if isinstance(e, ast.Name) and e.id in names:
        return [e.id]
    if isinstance(e, ast.IfExp):
        return _refs(e.body, names) + _refs(e.orelse, names)
    if isinstance(e, ast.BoolOp):
        return [r for v in e.values for r in _refs(v, names)]
    return []


def shared_escapes(prog: Program) -> tuple[list[SharedEscape], int]:
    """(escapes, number of module-level / class-level mutable objects examined)"""
    out: list[SharedEscape] = []
    examined = 0
    for mod in prog.modules.values():
        shared: dict[str, tuple[str, int]] = {}
        for st in mod.tree.body:
            tgt = st.targets[0] if isinstance(st, ast.Assign) and len(st.targets) == 1 else (st.target if isinstance(st, ast.AnnAssign) and st.value is not None else None)
            if isinstance(tgt, ast.Name):
                k = _mutable_kind(prog, mod, st.value)
                if k is not None:
                    shared[tgt.id] = (k, st.lineno)
        examined += len(shared)
        funcs: list[FuncInfo] = list(mod.functions.values()) + [m for c in mod.classes.values() for m in c.methods.values()]
        for fi in funcs:
            local_stores = {n.id for n in ast.walk(fi.node) if isinstance(n, ast.Name) and isinstance(n.ctx, ast.Store)} | {a.arg for a in fi.node.args.args + fi.node.args.kwonlyargs}
            names = {n for n in shared if n not in local_stores}
            if names:
                for n in walk_no_nested(fi.node):
                    if isinstance(n, (ast.Assign, ast.AnnAssign)) and n.value is not None:
                        for t in (n.targets if isinstance(n, ast.Assign) else [n.target]):
                            if isinstance(t, ast.Attribute) and not (isinstance(t.value, ast.Name) and t.value.id in shared):
                                for r in _refs(n.value, names):
                                    out.append(SharedEscape(r, shared[r][0], f"{mod.relpath}:{shared[r][1]}", f"stored in `{norm(t)}`", f"{mod.relpath}:{n.lineno}", fi.qualname))
                    elif isinstance(n, ast.Return) and n.value is not None:
                        for r in _refs(n.value, names):
                            out.append(SharedEscape(r, shared[r][0], f"{mod.relpath}:{shared[r][1]}", f"returned by {fi.qualname}", f"{mod.relpath}:{n.lineno}", fi.qualname))
            # mutable default arguments that end up in the object's state
            a = fi.node.args
            pos = a.posonlyargs + a.args
            defaults = list(zip(pos[len(pos) - len(a.defaults):], a.defaults)) + [(x, d) for x, d in zip(a.kwonlyargs, a.kw_defaults) if d is not None]
            for arg, d in defaults:
                k = _mutable_kind(prog, mod, d)
                ref = d.id if isinstance(d, ast.Name) and d.id in shared else None
                if k is None and ref is None:
                    continue
                examined += 1
                for n in walk_no_nested(fi.node):
                    if isinstance(n, (ast.Assign, ast.AnnAssign)) and n.value is not None and _refs(n.value, {arg.arg}):
                        for t in (n.targets if isinstance(n, ast.Assign) else [n.target]):
                            if isinstance(t, ast.Attribute):
                                out.append(SharedEscape(f"default of `{arg.arg}`", k or shared[ref][0], f"{mod.relpath}:{d.lineno}", f"stored in `{norm(t)}`", f"{mod.relpath}:{n.lineno}", fi.qualname))
        # class-level mutable attributes changed in place through an instance
        for ci in mod.classes.values():
            for st in ci.node.body:
                tgt = st.targets[0] if isinstance(st, ast.Assign) and len(st.targets) == 1 else (st.target if isinstance(st, ast.AnnAssign) and st.value is not None else None)
                if not isinstance(tgt, ast.Name) or st.value is None:
                    continue
                k = _mutable_kind(prog, mod, st.value)
                if k is None:
                    continue
                examined += 1
                rebound = any(isinstance(n, (ast.Assign, ast.AnnAssign)) and any(norm(t) == f"self.{tgt.id}" for t in (n.targets if isinstance(n, ast.Assign) else [n.target]))
                              for c2 in prog.mro_classes(ci) for m in c2.methods.values() if m.name == "__init__" for n in walk_no_nested(m.node))
                if rebound:
                    continue
                for c2 in [ci] + list(prog.subclasses(ci, strict=True)):
                    for m in c2.methods.values():
                        # locals bound to the class-level object (`parts = self._parts`) are the same object
                        al = {t.id for n in walk_no_nested(m.node) if isinstance(n, (ast.Assign, ast.AnnAssign)) and n.value is not None and norm(n.value) in (f"self.{tgt.id}", f"cls.{tgt.id}", f"{ci.name}.{tgt.id}")
                              for t in (n.targets if isinstance(n, ast.Assign) else [n.target]) if isinstance(t, ast.Name)}
                        for n in walk_no_nested(m.node):
                            if isinstance(n, ast.Call) and isinstance(n.func, ast.Attribute) and isinstance(n.func.value, ast.Name) and n.func.value.id in al \
                                    and n.func.attr in ("append", "extend", "insert", "add", "update", "setdefault", "pop", "remove", "clear", "sort", "fill"):
                                out.append(SharedEscape(f"{ci.name}.{tgt.id}", k, f"{mod.relpath}:{st.lineno}", f"changed in place through the local `{n.func.value.id}` bound to `self.{tgt.id}`", f"{mod.relpath}:{n.lineno}", m.qualname))
                            if isinstance(n, (ast.Assign, ast.AugAssign)):
                                tg_ = n.targets if isinstance(n, ast.Assign) else [n.target]
                                if any((isinstance(t, ast.Subscript) and isinstance(t.value, ast.Name) and t.value.id in al) or (isinstance(n, ast.AugAssign) and isinstance(t, ast.Name) and t.id in al) for t in tg_):
                                    out.append(SharedEscape(f"{ci.name}.{tgt.id}", k, f"{mod.relpath}:{st.lineno}", f"changed in place through a local bound to `self.{tgt.id}`", f"{mod.relpath}:{n.lineno}", m.qualname))
                            tgts = n.targets if isinstance(n, ast.Assign) else ([n.target] if isinstance(n, ast.AugAssign) else [])
                            hit = any(isinstance(t, ast.Subscript) and norm(t.value) == f"self.{tgt.id}" for t in tgts) or (isinstance(n, ast.AugAssign) and norm(n.target) == f"self.{tgt.id}")
                            if isinstance(n, ast.Call) and isinstance(n.func, ast.Attribute) and norm(n.func.value) == f"self.{tgt.id}" and n.func.attr in ("append", "extend", "insert", "add", "update", "setdefault", "pop", "remove", "clear", "sort", "fill"):
                                hit = True
                            if hit:
                                out.append(SharedEscape(f"{ci.name}.{tgt.id}", k, f"{mod.relpath}:{st.lineno}", f"changed in place through `self.{tgt.id}`", f"{mod.relpath}:{n.lineno}", m.qualname))
    return out, examined
