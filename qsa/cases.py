"""Finite case analysis ("abstract evaluation") of small expressions/statement lists.

A distinguished input (e.g. the ``seed`` parameter) is bound in turn to each member of a
finite partition of its domain — None, 0, a positive int, a negative int — and the
expression is evaluated over those abstract values.  The evaluator understands exactly
the constructs through which such optional values are defaulted in this code base:
``or`` / ``and`` / ``not``, conditional expressions, ``is None`` / ``is not None`` /
``== None`` tests, comparisons against numeric literals, ``isinstance(x, int)``, and
``if`` statements around plain assignments.  Anything else evaluates to an opaque
*fresh* value (which is not the input), or to *unknown truthiness*, in which case the
caller gets ``Undecided`` and must report analysis-broken rather than a verdict.
"""

from __future__ import annotations

import ast
from dataclasses import dataclass

from .loader import norm


class Undecided(Exception):
    pass


@dataclass(frozen=True)
class AV:
    kind: str  # none | int0 | intpos | intneg | true | false | fresh | array1 | arrayN | str | emptystr
    origin: str | None = None  # name of the distinguished input this value *is*
    text: str = ""

    def truth(self) -> bool | None:
        if self.kind in ("none", "int0", "false", "emptystr"):
            return False
        if self.kind in ("intpos", "intneg", "true", "str"):
            return True
        if self.kind == "arrayN":
            raise ArrayTruth(self)
        return None

    def __str__(self) -> str:
        o = f"{self.origin}=" if self.origin else ""
        return f"{o}{self.kind}" + (f"<{self.text}>" if self.kind == "fresh" and self.text else "")


class ArrayTruth(Exception):
    """Truth value of a multi-element array was requested (raises ValueError at run time)."""


NUM = {"int0": 0, "intpos": 7, "intneg": -3}


def fresh(e: ast.AST) -> AV:
    return AV("fresh", None, norm(e))


class CaseEval:
    def __init__(self, env: dict[str, AV]):
        self.env = dict(env)
        self.raised = False

    def key(self, e: ast.expr) -> str | None:
        if isinstance(e, ast.Name):
            return e.id
        if isinstance(e, ast.Attribute):
            return norm(e)
        return None

    def ev(self, e: ast.expr) -> AV:
        k = self.key(e)
        if k is not None and k in self.env:
            return self.env[k]
        if isinstance(e, ast.Constant):
            v = e.value
            if v is None:
                return AV("none")
            if v is True:
                return AV("true")
            if v is False:
                return AV("false")
            if isinstance(v, (int, float)):
                return AV("int0" if v == 0 else ("intpos" if v > 0 else "intneg"), None, repr(v))
            if isinstance(v, str):
                return AV("str" if v else "emptystr")
            return fresh(e)
        if isinstance(e, ast.NamedExpr):
            v = self.ev(e.value)
            self.env[e.target.id] = v
            return v
        if isinstance(e, ast.BoolOp):
            is_or = isinstance(e.op, ast.Or)
            last = None
            for sub in e.values:
                last = self.ev(sub)
                if sub is e.values[-1]:
                    return last
                t = last.truth()
                if t is None:
                    raise Undecided(f"truthiness of `{norm(sub)}` unknown")
                if is_or and t:
                    return last
                if not is_or and not t:
                    return last
            return last
        if isinstance(e, ast.UnaryOp) and isinstance(e.op, ast.Not):
            t = self.ev(e.operand).truth()
            if t is None:
                raise Undecided(f"truthiness of `{norm(e.operand)}` unknown")
            return AV("false" if t else "true")
        if isinstance(e, ast.UnaryOp) and isinstance(e.op, ast.USub):
            v = self.ev(e.operand)
            if v.kind == "intpos":
                return AV("intneg", None, v.text)
            if v.kind == "intneg":
                return AV("intpos", None, v.text)
            if v.kind == "int0":
                return AV("int0", None, v.text)
            return fresh(e)
        if isinstance(e, ast.IfExp):
            t = self.ev(e.test).truth()
            if t is None:
                a, b = self.ev(e.body), self.ev(e.orelse)
                if a == b:
                    return a
                if a.origin is None and b.origin is None:
                    return fresh(e)  # whichever branch runs, the result is not the distinguished input
                raise Undecided(f"truthiness of `{norm(e.test)}` unknown")
            return self.ev(e.body if t else e.orelse)
        if isinstance(e, ast.Compare) and len(e.ops) == 1:
            a, b, op = self.ev(e.left), self.ev(e.comparators[0]), e.ops[0]
            if isinstance(op, (ast.Is, ast.IsNot, ast.Eq, ast.NotEq)) and ("none" in (a.kind, b.kind)):
                other = b if a.kind == "none" else a
                if other.kind in ("fresh",):
                    # a fresh value compared with None: unknown
                    raise Undecided(f"`{norm(e)}` compares an opaque value with None")
                same = other.kind == "none"
                res = same if isinstance(op, (ast.Is, ast.Eq)) else (not same)
                return AV("true" if res else "false")
            if a.kind in NUM and b.kind in NUM:
                # comparison of the partitioned input with a literal is decidable only when
                # the literal is 0 (the partition boundary)
                lit_zero = (a.origin is None and a.kind == "int0") or (b.origin is None and b.kind == "int0")
                if lit_zero:
                    x, y = NUM[a.kind], NUM[b.kind]
                    table = {
                        ast.Lt: x < y, ast.LtE: x <= y, ast.Gt: x > y, ast.GtE: x >= y,
                        ast.Eq: x == y, ast.NotEq: x != y,
                    }
                    for tcls, r in table.items():
                        if isinstance(op, tcls):
                            return AV("true" if r else "false")
                raise Undecided(f"`{norm(e)}`: comparison with a non-zero literal is outside the partition")
            if "none" in (a.kind, b.kind) and isinstance(op, (ast.Lt, ast.LtE, ast.Gt, ast.GtE)):
                self.raised = True  # TypeError at run time
                raise Undecided(f"`{norm(e)}` orders None")
            raise Undecided(f"cannot decide `{norm(e)}`")
        if isinstance(e, ast.Call) and norm(e.func) in ("np.asarray", "np.array", "numpy.asarray", "numpy.array", "np.copy") and len(e.args) >= 1:
            v = self.ev(e.args[0])
            if v.kind in ("arrayN", "array1"):
                return v  # still the caller's data (converted/copied)
            if v.kind == "none":
                return AV("fresh", None, "array(None)")
            return fresh(e)
        if isinstance(e, ast.Call) and isinstance(e.func, ast.Attribute) and e.func.attr in ("copy", "astype", "view", "ravel", "flatten", "reshape") and not isinstance(e.func.value, ast.Name):
            v = self.ev(e.func.value)
            if v.kind in ("arrayN", "array1"):
                return v  # a copy / view / reshaping of the caller's data is still the caller's data (value-wise)
        if isinstance(e, ast.Call) and isinstance(e.func, ast.Attribute) and e.func.attr in ("copy", "astype") and isinstance(e.func.value, ast.Name):
            v = self.ev(e.func.value)
            if v.kind in ("arrayN", "array1"):
                return v
        if isinstance(e, ast.Call) and isinstance(e.func, ast.Name):
            if e.func.id == "isinstance" and len(e.args) == 2:
                v = self.ev(e.args[0])
                tn = norm(e.args[1])
                int_types = {"int", "np.integer", "numpy.integer", "Integral", "numbers.Integral", "Real", "numbers.Real", "Number", "numbers.Number", "float", "np.floating", "numpy.floating"}
                members = {x.strip() for x in tn.strip("()").replace("|", ",").split(",") if x.strip()}
                if v.kind in NUM and members and members <= int_types and members & {"int", "Integral", "numbers.Integral", "Real", "numbers.Real", "Number", "numbers.Number"}:
                    return AV("true")  # the partitioned input is a Python int
                if v.kind == "none" and "None" not in tn:
                    return AV("false")
                raise Undecided(f"cannot decide `{norm(e)}`")
            if e.func.id in ("int", "float") and len(e.args) == 1:
                v = self.ev(e.args[0])
                if v.kind in NUM:
                    return v
                return fresh(e)
            if e.func.id == "bool" and len(e.args) == 1:
                t = self.ev(e.args[0]).truth()
                if t is None:
                    raise Undecided(f"truthiness of `{norm(e.args[0])}` unknown")
                return AV("true" if t else "false")
            if e.func.id == "len" and len(e.args) == 1:
                return fresh(e)
        return fresh(e)

    # ------------------------------------------------------------- statements
    def run(self, body: list[ast.stmt], stop_at=None) -> str:
        """Execute statements abstractly. Returns 'fallthrough' | 'return' | 'raise' | 'stop'."""
        for st in body:
            if stop_at is not None and stop_at(st, self):
                return "stop"
            if isinstance(st, (ast.Assign, ast.AnnAssign)):
                val = st.value
                tgts = st.targets if isinstance(st, ast.Assign) else [st.target]
                if val is None:
                    continue
                v = self.ev(val)
                for t in tgts:
                    k = self.key(t)
                    if k is not None:
                        self.env[k] = v
            elif isinstance(st, ast.If):
                t = self.ev(st.test).truth()
                if t is None:
                    raise Undecided(f"truthiness of `{norm(st.test)}` unknown")
                r = self.run(st.body if t else st.orelse, stop_at)
                if r != "fallthrough":
                    return r
            elif isinstance(st, ast.Raise):
                self.raised = True
                return "raise"
            elif isinstance(st, ast.Return):
                self.env["<return>"] = self.ev(st.value) if st.value is not None else AV("none")
                return "return"
            elif isinstance(st, ast.Expr):
                continue
            else:
                # other statement kinds: conservatively forget names they (re)bind
                for n in ast.walk(st):
                    if isinstance(n, ast.Name) and isinstance(n.ctx, ast.Store):
                        self.env.pop(n.id, None)
        return "fallthrough"
