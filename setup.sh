#!/bin/bash
# Offline setup: install the pure-python sympy/mpmath wheels next to the checker (used for
# normal forms of straight-line formulas) and byte-compile nothing else. Idempotent.
HERE="$(cd "$(dirname "${BASH_SOURCE[0]}")" && pwd)"
cd "$HERE" || exit 1
if [ ! -d .deps/sympy ]; then
  PIP_NO_INDEX=1 /venv/bin/pip install -q --no-index --find-links /opt/veriftools/wheels --target .deps sympy mpmath || exit 1
fi
mkdir -p evidence/replay
exit 0
